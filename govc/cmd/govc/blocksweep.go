package main

import (
	"fmt"
	"go/token"
	"go/types"
	"sort"
	"strings"

	"golang.org/x/tools/go/ssa"
)

// BlockAllow is one reviewed entry of a property's allow-list of blocking operations.
type BlockAllow struct {
	Func string `json:"func"`
	Op   string `json:"op"`
	Max  int    `json:"max"`
	Why  string `json:"why"`
}

// verifyBlockSweep is a zero-annotation static obligation (C01, "does not wedge the receive loop"):
// every operation that can block the calling goroutine - channel send / receive, blocking select,
// mutex and read-write-mutex acquisition, WaitGroup / Cond wait, time.Sleep - in any function of
// the package reachable from the entry point (static calls, closures called or deferred, every
// in-package implementation of an invoked interface method; functions started with `go` are other
// goroutines and are not followed) must be on the reviewed allow-list of the property, which names
// the function, the operation, how many occurrences were reviewed and why it cannot wedge the loop.
// One obligation per operation found; a new blocking operation anywhere on that path fails its
// obligation. What it does not see: blocking inside dependencies (gRPC, net), and whether an
// allow-listed operation can in fact block for ever - that is the reviewer's justification.
func verifyBlockSweep(P *Program, entry string, allow []BlockAllow) *FuncResult {
	res := &FuncResult{Key: "blocksweep:" + entry}
	root := P.fnByKey[P.resolveKey(entry)]
	if root == nil {
		res.Err = "no such entry point: " + entry
		return res
	}
	inPkg := func(fn *ssa.Function) bool {
		if fn == nil || len(fn.Blocks) == 0 {
			return false
		}
		file := P.fset.Position(fn.Pos()).Filename
		if strings.HasSuffix(file, "_test.go") || strings.HasSuffix(file, "_verif.go") {
			return false
		}
		return rootFn(fn).Pkg == P.spkg
	}
	// implementations of an interface method among the package's production types
	impls := func(recv types.Type, name string) []*ssa.Function {
		var out []*ssa.Function
		it, ok := recv.Underlying().(*types.Interface)
		if !ok {
			return nil
		}
		for _, fn := range P.allFns {
			if fn.Signature.Recv() == nil || fn.Name() != name || !inPkg(fn) {
				continue
			}
			if types.Implements(fn.Signature.Recv().Type(), it) {
				out = append(out, fn)
			}
		}
		return out
	}
	seen := map[*ssa.Function]bool{root: true}
	queue := []*ssa.Function{root}
	type op struct {
		fn   string
		what string
		pos  token.Pos
	}
	var ops []op
	push := func(fn *ssa.Function) {
		if inPkg(fn) && !seen[fn] {
			seen[fn] = true
			queue = append(queue, fn)
		}
	}
	blockingCallee := map[string]string{
		"(*sync.Mutex).Lock":     "mutex lock",
		"(*sync.RWMutex).Lock":   "rwmutex lock",
		"(*sync.RWMutex).RLock":  "rwmutex rlock",
		"(*sync.WaitGroup).Wait": "waitgroup wait",
		"(*sync.Cond).Wait":      "cond wait",
		"time.Sleep":             "sleep",
	}
	for len(queue) > 0 {
		fn := queue[0]
		queue = queue[1:]
		name := shortKey(P, fnKey(fn))
		for _, b := range fn.Blocks {
			for _, ins := range b.Instrs {
				switch v := ins.(type) {
				case *ssa.Go:
					// another goroutine: its blocking does not block this one
					continue
				case *ssa.Send:
					ops = append(ops, op{name, "chan send", v.Pos()})
				case *ssa.Select:
					if v.Blocking {
						ops = append(ops, op{name, "select", v.Pos()})
					}
				case *ssa.UnOp:
					if v.Op == token.ARROW {
						ops = append(ops, op{name, "chan receive", v.Pos()})
					}
				case *ssa.MakeClosure:
					// a closure that is only ever started with `go` runs in another goroutine
					onlyGo := v.Referrers() != nil && len(*v.Referrers()) > 0
					if v.Referrers() != nil {
						for _, r := range *v.Referrers() {
							if _, isDbg := r.(*ssa.DebugRef); isDbg {
								continue
							}
							if _, isGo := r.(*ssa.Go); !isGo {
								onlyGo = false
							}
						}
					}
					if f, ok := v.Fn.(*ssa.Function); ok && !onlyGo {
						push(f)
					}
				}
				var cc *ssa.CallCommon
				switch v := ins.(type) {
				case *ssa.Call:
					cc = &v.Call
				case *ssa.Defer:
					cc = &v.Call
				}
				if cc == nil {
					continue
				}
				if cc.IsInvoke() {
					for _, f := range impls(cc.Value.Type(), cc.Method.Name()) {
						push(f)
					}
					continue
				}
				if callee := cc.StaticCallee(); callee != nil {
					if w, ok := blockingCallee[callee.String()]; ok {
						ops = append(ops, op{name, w, ins.Pos()})
					}
					push(callee)
				}
			}
		}
	}
	sort.SliceStable(ops, func(i, j int) bool {
		if ops[i].fn != ops[j].fn {
			return ops[i].fn < ops[j].fn
		}
		if ops[i].what != ops[j].what {
			return ops[i].what < ops[j].what
		}
		return ops[i].pos < ops[j].pos
	})
	max := map[string]int{}
	for _, a := range allow {
		max[a.Func+": "+a.Op] += a.Max
	}
	count := map[string]int{}
	for _, o := range ops {
		k := o.fn + ": " + o.what
		count[k]++
		ob := &Obligation{Name: fmt.Sprintf("block/%s/%s#%d", o.fn, strings.ReplaceAll(o.what, " ", "-"), count[k]), Kind: "block", Func: entry,
			Src: fmt.Sprintf("%s:%d", shortFile(P.fset.Position(o.pos).Filename), P.fset.Position(o.pos).Line)}
		if count[k] <= max[k] {
			ob.Status, ob.Solver = "unsat", "syntactic"
		} else {
			ob.Status = "sat"
			ob.Model = fmt.Sprintf("%s (%s) is reachable from %s and is not on the reviewed allow-list of blocking operations (block_allow in props.json: %d occurrence(s) of %q reviewed)", o.what, ob.Src, entry, max[k], k)
		}
		res.Obls = append(res.Obls, ob)
	}
	res.Obls = append(res.Obls, &Obligation{Name: fmt.Sprintf("block/sweep-covers-%d-functions", len(seen)), Kind: "block", Func: entry, Status: "unsat", Solver: "syntactic"})
	return res
}
