package main

import (
	"fmt"
	"go/token"
	"go/types"
	"strings"

	"golang.org/x/tools/go/ssa"
)

func originName(fn *ssa.Function) string {
	if o := fn.Origin(); o != nil {
		return o.Name()
	}
	return fn.Name()
}

var ghostBuiltins = map[string]bool{
	"implies": true, "iff": true, "forall": true, "exists": true, "old": true, "has": true,
	"lo": true, "hi": true, "at": true, "held": true, "typeIs": true, "gint": true, "allocated": true,
	"sameArray": true, "refOf": true, "nonNil": true, "dynRef": true, "before": true,
	"glen": true, "gentry": true, "gfield": true, "gfieldS": true, "mulGE": true, "ptrAt": true, "sliceRef": true, "elemAt": true, "smHas": true, "smIs": true, "smGet": true, "gclock": true, "chanRef": true, "timeNanos": true, "mapRef": true, "live": true, "gsHas": true, "gsCard": true, "gsOnly": true, "gsSame": true, "arrSame": true, "onceDone": true, "chanClosed": true, "same": true, "gsTagged": true, "gsOthersSameByType": true, "gsIsAdd": true, "gsIsRemove": true, "gsOthersSame": true,
}

func (x *Exec) isGhostBuiltin(fn *ssa.Function) bool {
	r := rootFn(fn)
	if o := r.Origin(); o != nil {
		r = o
	}
	return r.Pkg == x.P.spkg && ghostBuiltins[originName(fn)] && fn.Parent() == nil
}

func (x *Exec) call(f *frame, site ssa.Instruction, c *ssa.CallCommon, st *State, pos token.Pos) *Val {
	var args []*Val
	for _, a := range c.Args {
		args = append(args, x.val(f, a))
	}
	return x.callCommon(f, c, args, st, pos)
}

func (x *Exec) callCommon(f *frame, c *ssa.CallCommon, args []*Val, st *State, pos token.Pos) *Val {
	sig := c.Signature()
	if c.IsInvoke() {
		recv := x.val(f, c.Value)
		key := c.Method.FullName()
		// devirtualize when the dynamic type is statically known
		if recv.K == KIface && recv.box != nil {
			if m := x.P.prog.LookupMethod(recv.boxT, c.Method.Pkg(), c.Method.Name()); m != nil && (len(m.Blocks) > 0 || x.P.cs.byKey[fnKey(m)] != nil || models[fnKey(m)] != nil) {
				if !strings.Contains(m.Name(), "$bound") {
					return x.callStatic(m, append([]*Val{recv.box}, args...), nil, st, pos)
				}
			}
		}
		x.oblige(st, "nil", "", "method call on interface "+c.Method.Name(), not(eq(recv.E[0].S, "0")), pos)
		all := append([]*Val{recv}, args...)
		if ctr := x.P.cs.byKey[key]; ctr != nil {
			return x.contractCall(nil, key, ctr, all, nil, st, sig, pos)
		}
		if m := models[key]; m != nil {
			x.usedModels[key] = true
			return m(x, st, all, sig, pos)
		}
		// exactly one type of the package implements the interface: call it, under the obligation
		// that the dynamic type is that type
		if impl := x.P.uniqueImpl(c.Value.Type()); impl != nil {
			if m := x.P.prog.LookupMethod(impl, c.Method.Pkg(), c.Method.Name()); m != nil {
				x.oblige(st, "tassert", "", "dynamic type of "+types.TypeString(c.Value.Type(), types.RelativeTo(x.P.tpkg))+" is "+types.TypeString(impl, types.RelativeTo(x.P.tpkg)), eq(recv.E[0].S, x.tagOf(impl)), pos)
				var rv *Val
				if pt, ok := impl.Underlying().(*types.Pointer); ok {
					rv = &Val{K: KPtr, T: impl, P: &Ptr{Kind: PHeap, Ref: recv.E[1].S, Root: pt.Elem()}}
				} else {
					rv = x.load(st, &Ptr{Kind: PHeap, Ref: recv.E[1].S, Root: impl})
				}
				return x.callStatic(m, append([]*Val{rv}, args...), nil, st, pos)
			}
		}
		return x.unknownCall(key, all, st, sig, pos)
	}
	switch callee := c.Value.(type) {
	case *ssa.Builtin:
		return x.builtin(f, callee.Name(), c, args, st, pos)
	case *ssa.Function:
		return x.callStatic(callee, args, nil, st, pos)
	case *ssa.MakeClosure:
		cv := x.val(f, callee)
		return x.callStatic(callee.Fn.(*ssa.Function), args, cv.Fn.Bindings, st, pos)
	}
	// a context.CancelFunc only affects contexts, which are not modelled
	if isCancelFunc(c.Value.Type()) {
		x.oblige(st, "nil", "", "call of a nil context.CancelFunc", "true", pos)
		return x.freshResults(st, sig, "cancel")
	}
	fv := x.val(f, c.Value)
	if fv.K == KFunc && fv.Fn != nil && fv.Fn.Fn == nil && fv.Fn.Harmless {
		return x.freshResults(st, sig, "opaquefn")
	}
	if fv.K == KFunc && fv.Fn != nil && fv.Fn.Fn != nil {
		return x.callStatic(fv.Fn.Fn, args, fv.Fn.Bindings, st, pos)
	}
	// a func-typed free variable / cell whose content is statically unique
	if fn := x.P.resolveFuncValue(c.Value); fn != nil {
		return x.callStatic(fn, args, nil, st, pos)
	}
	return x.unknownCall("dynamic call "+c.Value.Name()+" in "+fnKey(f.fn), args, st, sig, pos)
}

func (x *Exec) inModule(fn *ssa.Function) bool {
	r := rootFn(fn)
	// generated accessors (Get*) of packages declared with srcpkg
	if r.Pkg != nil && x.P.getterPkgs[r.Pkg.Pkg.Path()] && strings.HasPrefix(fn.Name(), "Get") && len(fn.Blocks) > 0 && !hasLoops(fn) {
		return true
	}
	if r.Pkg == nil {
		if o := r.Origin(); o != nil && o.Pkg != nil {
			return strings.HasPrefix(o.Pkg.Pkg.Path(), x.P.modPath)
		}
		return false
	}
	return x.P.modPath != "" && strings.HasPrefix(r.Pkg.Pkg.Path(), x.P.modPath)
}

func (x *Exec) callStatic(fn *ssa.Function, args []*Val, bindings []*Val, st *State, pos token.Pos) *Val {
	key := fnKey(fn)
	if x.isGhostBuiltin(fn) {
		return x.ghost(originName(fn), fn, args, st, pos)
	}
	if rootFn(fn).Pkg == x.P.spkg && x.P.ghost[fn.Name()] {
		return x.uninterpreted(fn, args)
	}
	ctr := x.P.cs.byKey[key]
	if ctr != nil && !ctr.Inline && !(x.spec > 0 && len(fn.Blocks) > 0 && !ctr.Trusted) {
		return x.contractCall(fn, key, ctr, args, bindings, st, fn.Signature, pos)
	}
	if m := models[key]; m != nil {
		x.usedModels[key] = true
		return m(x, st, args, fn.Signature, pos)
	}
	if m := modelByPrefix(key); m != nil {
		x.usedModels[key] = true
		return m(x, st, args, fn.Signature, pos)
	}
	if len(fn.Blocks) > 0 && (x.inModule(fn) || x.P.genMap[fn.Name()] != nil) {
		if rootFn(fn).Pkg != x.P.spkg || x.P.genMap[fn.Name()] == nil {
			x.inlined[key] = true
		}
		rv, out := x.run(fn, args, bindings, st, false, nil)
		*st = *out
		return rv
	}
	return x.unknownCall(key, args, st, fn.Signature, pos)
}

// unknownCall: a call with no contract, model or body. Sound fallback: the result is arbitrary and
// every heap component may have changed. Panics inside the callee are not modelled (listed).
func (x *Exec) unknownCall(key string, args []*Val, st *State, sig *types.Signature, pos token.Pos) *Val {
	if x.spec > 0 {
		panic(unsupported("call of %s in specification code", key))
	}
	if keys, ok := x.argReachKeys(sig); ok {
		// Everything the callee is handed is a scalar or a slice / array / pointer of scalars: code
		// outside the module can write only what these reach, not the module's own state.
		x.warn("unmodelled call %s: result arbitrary, scalar memory reachable from its arguments havocked", key)
		x.havocKeys(st, keys)
		return x.freshResults(st, sig, key)
	}
	x.warn("unmodelled call %s: result arbitrary, whole heap havocked", key)
	x.escapeArgs(st, args)
	x.havocAll(st)
	return x.freshResults(st, sig, key)
}

// argReachKeys: for a function outside the module with no contract, model or body, the heap
// components it can write when every parameter (and the receiver) is a scalar or a slice, array
// or pointer of scalars. ok is false when a parameter could carry a reference to anything else
// (interfaces, functions, structs with pointers, maps, channels): then everything is havocked.
func (x *Exec) argReachKeys(sig *types.Signature) (keys []string, ok bool) {
	var ts []types.Type
	if r := sig.Recv(); r != nil {
		ts = append(ts, r.Type())
	}
	for i := 0; i < sig.Params().Len(); i++ {
		ts = append(ts, sig.Params().At(i).Type())
	}
	scalar := func(t types.Type) bool {
		b, isB := t.Underlying().(*types.Basic)
		return isB && b.Kind() != types.UnsafePointer && b.Kind() != types.Invalid
	}
	for _, t := range ts {
		switch u := t.Underlying().(type) {
		case *types.Basic:
			if !scalar(t) {
				return nil, false
			}
		case *types.Slice:
			if !scalar(u.Elem()) {
				return nil, false
			}
			keys = append(keys, x.keysUnder("E", u.Elem(), nil)...)
		case *types.Array:
			if !scalar(u.Elem()) {
				return nil, false
			}
		case *types.Pointer:
			if !scalar(u.Elem()) {
				return nil, false
			}
			keys = append(keys, x.keysUnder("H", u.Elem(), nil)...)
		default:
			return nil, false
		}
	}
	return keys, true
}

func (x *Exec) escapeArgs(st *State, args []*Val) {
	for _, a := range args {
		if a != nil && a.K == KIface {
			// boxed payloads handed to unknown code: nothing to do, payload is generator-side
			continue
		}
	}
}

func (x *Exec) freshResults(st *State, sig *types.Signature, hint string) *Val {
	n := sig.Results().Len()
	if n == 0 {
		return nil
	}
	if i := strings.LastIndex(hint, "."); i >= 0 {
		hint = hint[i+1:]
	}
	x.cur = st
	if n == 1 {
		v := x.freshVal(sig.Results().At(0).Type(), "r_"+hint)
		return v
	}
	v := &Val{K: KTuple, T: sig.Results()}
	for i := 0; i < n; i++ {
		v.E = append(v.E, x.freshVal(sig.Results().At(i).Type(), fmt.Sprintf("r%d_%s", i, hint)))
	}
	return v
}

func (x *Exec) havocAll(st *State) {
	x.gens++
	st.heap = map[string]*HeapSym{}
	st.gen = x.gens
	top := x.sc.declare("top", "Int")
	x.sc.assume("(>= " + top + " " + st.allocTop + ")")
	st.allocTop = top
	x.genTop[st.gen] = top
}

// uninterpreted ghost function: one SMT function symbol per Go function. Slice arguments are
// passed by content (backing array value, offset, length), so the function depends on the element
// sequence only; all other arguments are passed by their leaves (pointers by reference).
func (x *Exec) uninterpreted(fn *ssa.Function, args []*Val) *Val {
	var argTerms []string
	var argSorts []string
	I := x.sc.intSort()
	for i, a := range args {
		pt := fn.Signature.Params().At(i).Type()
		if a.K == KSlice {
			et := x.sliceElem(pt)
			for _, l := range x.leaves(et) {
				key := "E|" + typeKey(et) + "|" + l.Path
				h := x.heapSym(x.cur, key, x.eInfo(l))
				argTerms = append(argTerms, sel(x.use(h), a.E[0].S))
				argSorts = append(argSorts, "(Array "+I+" "+l.Sort+")")
			}
			argTerms = append(argTerms, a.E[1].S, a.E[2].S)
			argSorts = append(argSorts, I, I)
			continue
		}
		ts := x.flatten(x.cur, a)
		ls := x.leaves(pt)
		for j, t := range ts {
			argTerms = append(argTerms, t)
			argSorts = append(argSorts, ls[j].Sort)
		}
	}
	return x.ufApply(fn, argTerms, argSorts)
}

func (x *Exec) ufApply(fn *ssa.Function, argTerms, argSorts []string) *Val {
	name := "uf_" + sanitize(fn.Name())
	rt := fn.Signature.Results().At(0).Type()
	rls := x.leaves(rt)
	ts := make([]string, len(rls))
	for i, l := range rls {
		n := name
		if len(rls) > 1 {
			n = name + sanitize(l.Path)
		}
		if !x.sc.decl[n] {
			x.sc.decl[n] = true
			x.sc.ufDecls = append(x.sc.ufDecls, fmt.Sprintf("(declare-fun %s (%s) %s)", n, strings.Join(argSorts, " "), l.Sort))
		}
		if len(argTerms) == 0 {
			ts[i] = n
		} else {
			ts[i] = "(" + n + " " + strings.Join(argTerms, " ") + ")"
		}
	}
	v, _ := x.unflatten(rt, ts)
	return v
}

// contentLemma: after copying n elements so that dst[doff, doff+n) equals src[soff, soff+n), every
// ghost function of one slice argument (a function of the element sequence by definition) agrees
// on the two sequences.
func (x *Exec) contentLemma(et types.Type, newD map[string]string, srcA map[string]string, doff, soff, n string) {
	I := x.sc.intSort()
	for name := range x.P.ghost {
		fn := x.P.spkg.Func(name)
		if fn == nil || fn.Signature.Params().Len() != 1 {
			continue
		}
		sl, ok := fn.Signature.Params().At(0).Type().Underlying().(*types.Slice)
		if !ok || !types.Identical(sl.Elem(), et) {
			continue
		}
		var a1, a2, sorts []string
		for _, l := range x.leaves(et) {
			a1 = append(a1, newD[l.Path])
			a2 = append(a2, srcA[l.Path])
			sorts = append(sorts, "(Array "+I+" "+l.Sort+")")
		}
		a1 = append(a1, doff, n)
		a2 = append(a2, soff, n)
		sorts = append(sorts, I, I)
		v1 := x.ufApply(fn, a1, sorts)
		v2 := x.ufApply(fn, a2, sorts)
		f1, f2 := x.flatten(x.cur, v1), x.flatten(x.cur, v2)
		for k := range f1 {
			x.sc.assume(eq(f1[k], f2[k]))
		}
	}
}

// ---- ghost built-ins ----

func (x *Exec) ghost(name string, fn *ssa.Function, args []*Val, st *State, pos token.Pos) *Val {
	boolT := types.Typ[types.Bool]
	I := x.sc.intSort()
	switch name {
	case "implies":
		return scalar(boolT, implies(args[0].S, args[1].S), "Bool")
	case "iff":
		return scalar(boolT, eq(args[0].S, args[1].S), "Bool")
	case "forall", "exists":
		fv := args[0]
		if fv.K != KFunc || fv.Fn == nil || fv.Fn.Fn == nil {
			panic(unsupported("%s needs a function literal", name))
		}
		cl := fv.Fn.Fn
		var bound []*Val
		var decls []string
		var ranges []string
		var bvs [][2]string
		for i := 0; i < cl.Signature.Params().Len(); i++ {
			p := cl.Signature.Params().At(i)
			srt, ok := x.scalarSort(p.Type())
			if !ok {
				// a struct of scalars: one bound variable per leaf
				if _, isStruct := p.Type().Underlying().(*types.Struct); !isStruct {
					panic(unsupported("quantified variable of type %s", p.Type()))
				}
				var names []string
				for _, l := range x.leaves(p.Type()) {
					n := x.sc.fresh("q_" + p.Name())
					decls = append(decls, "("+n+" "+l.Sort+")")
					bvs = append(bvs, [2]string{n, l.Sort})
					names = append(names, n)
				}
				bv, _ := x.unflatten(p.Type(), names)
				bound = append(bound, bv)
				continue
			}
			n := x.sc.fresh("q_" + p.Name())
			decls = append(decls, "("+n+" "+srt+")")
			bvs = append(bvs, [2]string{n, srt})
			bound = append(bound, scalar(p.Type(), n, srt))
			if isGoInt(p.Type()) && !x.sc.bvMode {
				if isSigned(p.Type()) {
					ranges = append(ranges, and("(<= (- 9223372036854775808) "+n+")", "(<= "+n+" 9223372036854775807)"))
				}
			}
		}
		x.sc.bind(bvs)
		s2 := st.clone()
		s2.pc = "true"
		rv, _ := x.run(cl, bound, fv.Fn.Bindings, s2, false, nil)
		x.sc.unbind(len(bvs))
		q := "forall"
		body := rv.S
		if name == "exists" {
			q = "exists"
		}
		_ = ranges
		return scalar(boolT, "("+q+" ("+strings.Join(decls, " ")+") "+body+")", "Bool")
	case "old":
		fv := args[0]
		if fv.K != KFunc || fv.Fn == nil || fv.Fn.Fn == nil {
			panic(unsupported("old needs a function literal"))
		}
		if x.oldState == nil {
			panic(unsupported("old() outside a two-state context"))
		}
		o := x.oldState.clone()
		// local cells of the evaluating frame keep their current contents
		for c, v := range st.cells {
			o.cells[c] = v
		}
		o.pc = "true"
		x.guards = append(x.guards, st.pc)
		rv, _ := x.run(fv.Fn.Fn, nil, fv.Fn.Bindings, o, false, nil)
		x.guards = x.guards[:len(x.guards)-1]
		return rv
	case "has":
		_, ok := x.mapLookup(st, args[0].T, args[0].S, args[1])
		return scalar(boolT, ok, "Bool")
	case "lo":
		return scalar(types.Typ[types.Int], args[0].E[1].S, I)
	case "hi":
		return scalar(types.Typ[types.Int], x.sc.iAdd(args[0].E[1].S, args[0].E[2].S), I)
	case "at":
		et := x.sliceElem(args[0].T)
		return x.load(st, &Ptr{Kind: PElem, Ref: args[0].E[0].S, Idx: args[1].S, Root: et})
	case "sameArray":
		return scalar(boolT, eq(args[0].E[0].S, args[1].E[0].S), "Bool")
	case "held":
		p := args[0]
		if p.K != KPtr || p.P.Kind != PHeap {
			panic(unsupported("held() of a local mutex"))
		}
		return scalar(boolT, sel(x.use(x.lockComp(st, p.P)), p.P.Ref), "Bool")
	case "typeIs":
		targs := fn.TypeArgs()
		if len(targs) != 1 {
			panic(unsupported("typeIs needs one type argument"))
		}
		a := args[0]
		if a.box != nil {
			if types.Identical(a.boxT, targs[0]) {
				return scalar(boolT, "true", "Bool")
			}
			return scalar(boolT, "false", "Bool")
		}
		return scalar(boolT, eq(a.E[0].S, x.tagOf(targs[0])), "Bool")
	case "gint":
		// ghost integer named by a string literal
		nm := x.strOf(args[0].S)
		h := x.heapSym(st, "G|"+nm, compInfo{sort: "Int"})
		return scalar(types.Typ[types.Int], x.intAsGo(x.use(h)), I)
	case "glen":
		nk, _ := x.logKeys(x.strOf(args[0].S))
		return scalar(types.Typ[types.Int], x.intAsGo(x.use(x.heapSym(st, nk, x.keyInfo[nk]))), I)
	case "gentry":
		_, ek := x.logKeys(x.strOf(args[0].S))
		idx := args[1].S
		if x.sc.bvMode {
			x.sc.bridge[64] = true
			idx = "(nat64 " + idx + ")"
		}
		return scalar(types.Typ[types.Int], x.intAsGo(sel(x.use(x.heapSym(st, ek, x.keyInfo[ek])), idx)), I)
	case "gfield", "gfieldS":
		fname := "gf_" + sanitize(x.strOf(args[0].S))
		srt := bvSort(64)
		var rt types.Type = types.Typ[types.Uint64]
		if name == "gfieldS" {
			srt = "Str"
			rt = types.Typ[types.String]
		}
		if !x.sc.decl[fname] {
			x.sc.decl[fname] = true
			x.sc.ufDecls = append(x.sc.ufDecls, fmt.Sprintf("(declare-fun %s (Int) %s)", fname, srt))
		}
		e := args[1].S
		if x.sc.bvMode {
			x.sc.bridge[64] = true
			e = "(nat64 " + e + ")"
		}
		return scalar(rt, "("+fname+" "+e+")", srt)
	case "mulGE":
		// a*ka >= b*c*kbc over the naturals
		if x.sc.bvMode {
			// bit-vector mode: 192-bit arithmetic (a*ka < 2^128, b*c*kbc < 2^192: no wrap-around).
			// b*c is built as the 128-bit product of the zero-extended operands, the same term the
			// model of math/bits.Mul64 uses, so code that computes it that way shares it.
			z := func(v *Val, by int) string {
				return fmt.Sprintf("((_ zero_extend %d) %s)", by, v.S)
			}
			bc := "((_ zero_extend 64) (bvmul " + z(args[2], 64) + " " + z(args[3], 64) + "))"
			lhs := "(bvmul " + z(args[0], 128) + " " + z(args[1], 128) + ")"
			rhs := "(bvmul " + bc + " " + z(args[4], 128) + ")"
			return scalar(boolT, "(bvuge "+lhs+" "+rhs+")", "Bool")
		}
		n := func(v *Val) string {
			if lit, ok := isLit(v.S); ok {
				return fmt.Sprint(lit)
			}
			x.sc.bridge[64] = true
			t := "(nat64 " + v.S + ")"
			x.bridgeLemmas(v.S, bvSort(64), t, "Int", false)
			return t
		}
		x.sc.bridge[-1] = true // natmul
		bc := "(natmul " + n(args[2]) + " " + n(args[3]) + ")"
		return scalar(boolT, "(>= (* "+n(args[0])+" "+n(args[1])+") (* "+bc+" "+n(args[4])+"))", "Bool")
	case "smHas", "smIs", "smGet":
		k, str := x.smKey(args[1])
		c := x.smComps(st, args[0], str)
		m := args[0].P.Ref
		has := sel(sel(x.use(c.pres), m), k)
		switch name {
		case "smHas":
			return scalar(boolT, has, "Bool")
		case "smIs":
			targs := fn.TypeArgs()
			return scalar(boolT, eq(sel(sel(x.use(c.tag), m), k), x.tagOf(targs[len(targs)-1])), "Bool")
		default:
			targs := fn.TypeArgs()
			t := targs[len(targs)-1]
			ref := sel(sel(x.use(c.ref), m), k)
			if pt, ok := t.Underlying().(*types.Pointer); ok {
				return &Val{K: KPtr, T: t, P: &Ptr{Kind: PHeap, Ref: ref, Root: pt.Elem()}}
			}
			return x.load(st, &Ptr{Kind: PHeap, Ref: ref, Root: t})
		}
	case "gsIsAdd", "gsIsRemove":
		// exact two-state relations: the set of obj is the old one with v added / removed (and the
		// cardinality moved accordingly)
		if x.oldState == nil {
			panic(unsupported("%s outside a two-state context", name))
		}
		fam := x.strOf(args[0].S)
		g := x.gsGet(st, fam)
		o := x.gsGet(x.oldState, fam)
		obj := args[1].S
		if x.sc.bvMode {
			x.sc.bridge[64] = true
			obj = "(nat64 " + obj + ")"
		}
		tag, pay := x.gsKey(st, args[2])
		was := gsMember(o, obj, tag, pay)
		oc := sel(o.card, obj)
		if name == "gsIsRemove" {
			return scalar(boolT, and(eq(sel(g.has, obj), ite(was, sto(sel(o.has, obj), pay, "false"), sel(o.has, obj))),
				eq(sel(g.card, obj), ite(was, "(- "+oc+" 1)", oc)), eq(sel(g.etag, obj), sel(o.etag, obj))), "Bool")
		}
		return scalar(boolT, and(eq(sel(g.has, obj), sto(sel(o.has, obj), pay, "true")),
			eq(sel(g.card, obj), ite(was, oc, "(+ "+oc+" 1)")), eq(sel(g.etag, obj), tag)), "Bool")
	case "onceDone":
		h, _, _ := x.onceComp(st, args[0].P)
		return scalar(boolT, sel(x.use(h), args[0].P.Ref), "Bool")
	case "chanClosed":
		h := x.heapSym(st, "G|chanclosed", compInfo{sort: "(Array Int Bool)"})
		x.keyInfo["G|chanclosed"] = compInfo{sort: "(Array Int Bool)"}
		return scalar(boolT, sel(x.use(h), args[0].S), "Bool")
	case "arrSame":
		// two-state: the array ref (element type T) holds what it held in the old state, element by
		// element (stated per component as an equality of whole arrays: no index quantifier)
		if x.oldState == nil {
			panic(unsupported("arrSame outside a two-state context"))
		}
		targs := fn.TypeArgs()
		et := targs[len(targs)-1]
		ref := args[0].S
		if x.sc.bvMode {
			x.sc.bridge[64] = true
			ref = "(nat64 " + ref + ")"
		}
		var cs []string
		for _, l := range x.leaves(et) {
			key := "E|" + typeKey(et) + "|" + l.Path
			ci := x.eInfo(l)
			now := x.use(x.heapSym(st, key, ci))
			was := x.use(x.heapSym(x.oldState, key, ci))
			if now != was {
				cs = append(cs, eq(sel(now, ref), sel(was, ref)))
			}
		}
		return scalar(boolT, and(cs...), "Bool")
	case "same":
		// component-wise equality of two values of the same type (also for types Go cannot compare:
		// a slice field is the same slice when it has the same array, offset, length and capacity)
		f1, f2 := x.flatten(st, args[0]), x.flatten(st, args[1])
		var cs []string
		for i := range f1 {
			cs = append(cs, eq(f1[i], f2[i]))
		}
		return scalar(boolT, and(cs...), "Bool")
	case "gsTagged":
		// the set's element type is exactly T (it has been filled at least once)
		fam := x.strOf(args[0].S)
		g := x.gsGet(st, fam)
		obj := args[1].S
		if x.sc.bvMode {
			x.sc.bridge[64] = true
			obj = "(nat64 " + obj + ")"
		}
		targs := fn.TypeArgs()
		return scalar(boolT, eq(sel(g.etag, obj), x.tagOf(targs[len(targs)-1])), "Bool")
	case "gsOthersSameByType":
		x.needFreshNow()
		// two-state frame: every set that existed in the old state and whose element type then was
		// not T is unchanged
		if x.oldState == nil {
			panic(unsupported("%s outside a two-state context", name))
		}
		fam := x.strOf(args[0].S)
		g := x.gsGet(st, fam)
		o := x.gsGet(x.oldState, fam)
		targs := fn.TypeArgs()
		v := x.sc.fresh("go")
		inner := fmt.Sprintf("(=> (and (<= %s %s) (not (= (select %s %s) %s))) (and (= (select %s %s) (select %s %s)) (= (select %s %s) (select %s %s)) (= (select %s %s) (select %s %s))))",
			v, x.oldState.allocTop, o.etag, v, x.tagOf(targs[len(targs)-1]), g.has, v, o.has, v, g.card, v, o.card, v, g.etag, v, o.etag, v)
		if pt := gsPatterns(v, g, o); pt != "" {
			inner = "(! " + inner + " " + pt + ")"
		}
		body := fmt.Sprintf("(forall ((%s Int)) %s)", v, inner)
		return scalar(boolT, body, "Bool")
	case "gsSame", "gsOthersSame":
		x.needFreshNow()
		// two-state frame conditions on ghost sets: gsSame(family, obj): the set of obj is what it
		// was in the old state; gsOthersSame(family, a, b): so are the sets of all other objects
		// that existed then.
		if x.oldState == nil {
			panic(unsupported("%s outside a two-state context", name))
		}
		fam := x.strOf(args[0].S)
		g := x.gsGet(st, fam)
		o := x.gsGet(x.oldState, fam)
		conv := func(t string) string {
			if x.sc.bvMode {
				x.sc.bridge[64] = true
				return "(nat64 " + t + ")"
			}
			return t
		}
		if name == "gsSame" {
			obj := conv(args[1].S)
			return scalar(boolT, and(eq(sel(g.has, obj), sel(o.has, obj)), eq(sel(g.card, obj), sel(o.card, obj)), eq(sel(g.etag, obj), sel(o.etag, obj))), "Bool")
		}
		a, b := conv(args[1].S), conv(args[2].S)
		v := x.sc.fresh("go")
		inner := fmt.Sprintf("(=> (and (<= %s %s) (not (= %s %s)) (not (= %s %s))) (and (= (select %s %s) (select %s %s)) (= (select %s %s) (select %s %s)) (= (select %s %s) (select %s %s))))",
			v, x.oldState.allocTop, v, a, v, b, g.has, v, o.has, v, g.card, v, o.card, v, g.etag, v, o.etag, v)
		if pt := gsPatterns(v, g, o); pt != "" {
			inner = "(! " + inner + " " + pt + ")"
		}
		body := fmt.Sprintf("(forall ((%s Int)) %s)", v, inner)
		return scalar(boolT, body, "Bool")
	case "gsHas", "gsCard", "gsOnly":
		// ghost sets of interface values attached to object identities (gset.go):
		// gsHas(family, obj, v any), gsCard(family, obj), gsOnly[T](family, obj)
		fam := x.strOf(args[0].S)
		obj := args[1].S
		if x.sc.bvMode {
			x.sc.bridge[64] = true
			obj = "(nat64 " + obj + ")"
		}
		g := x.gsGet(st, fam)
		switch name {
		case "gsCard":
			return scalar(types.Typ[types.Int], x.intAsGo(sel(g.card, obj)), I)
		case "gsOnly":
			// every element has dynamic type T (a set that was never filled has no element type yet)
			targs := fn.TypeArgs()
			return scalar(boolT, or(eq(sel(g.etag, obj), x.tagOf(targs[len(targs)-1])), eq(sel(g.etag, obj), "0")), "Bool")
		}
		tag, pay := x.gsKey(st, args[2])
		return scalar(boolT, gsMember(g, obj, tag, pay), "Bool")
	case "live":
		// the object exists now (its identity is not above the current allocation top)
		x.needFreshNow()
		return scalar(boolT, "(<= "+x.refTerm(st, args[0])+" "+st.allocTop+")", "Bool")
	case "mapRef":
		return scalar(types.Typ[types.Int], x.intAsGo(args[0].S), I)
	case "timeNanos":
		return scalar(types.Typ[types.Int64], args[0].S, bvSort(64))
	case "chanRef":
		return scalar(types.Typ[types.Int], x.intAsGo(args[0].S), I)
	case "gclock":
		key := "G|clock"
		ci := compInfo{sort: bvSort(64)}
		x.keyInfo[key] = ci
		return scalar(types.Typ[types.Int64], x.use(x.heapSym(st, key, ci)), bvSort(64))
	case "sliceRef":
		return scalar(types.Typ[types.Int], x.intAsGo(args[0].E[0].S), I)
	case "elemAt":
		targs := fn.TypeArgs()
		ref, idx := args[0].S, args[1].S
		if x.sc.bvMode {
			x.sc.bridge[64] = true
			ref = "(nat64 " + ref + ")"
		}
		return x.load(st, &Ptr{Kind: PElem, Ref: ref, Idx: idx, Root: targs[0]})
	case "ptrAt":
		targs := fn.TypeArgs()
		ref := args[0].S
		if x.sc.bvMode {
			x.sc.bridge[64] = true
			ref = "(nat64 " + ref + ")"
		}
		return &Val{K: KPtr, T: types.NewPointer(targs[0]), P: &Ptr{Kind: PHeap, Ref: ref, Root: targs[0]}}
	case "allocated":
		// the object existed when the function under contract was entered (at a call site: when the
		// call was made)
		x.needFreshNow()
		p := args[0]
		base := x.top0
		if x.allocBase != "" {
			base = x.allocBase
		}
		return scalar(boolT, "(<= "+x.refTerm(st, p)+" "+base+")", "Bool")
	case "refOf":
		return scalar(types.Typ[types.Int], x.intAsGo(x.refTerm(st, args[0])), I)
	case "nonNil":
		return scalar(boolT, not(eq(x.refTerm(st, args[0]), "0")), "Bool")
	case "dynRef":
		x.materialize(st, args[0])
		return scalar(types.Typ[types.Int], x.intAsGo(args[0].E[1].S), I)
	}
	panic(unsupported("ghost builtin %s", name))
}

func (x *Exec) intAsGo(intTerm string) string {
	if x.sc.bvMode {
		x.sc.bridge[64] = true
		return "(bvof64 " + intTerm + ")"
	}
	return intTerm
}

func (x *Exec) refTerm(st *State, p *Val) string {
	switch p.K {
	case KPtr:
		if p.P.Kind == PHeap && len(p.P.Path) == 0 {
			return p.P.Ref
		}
		// an interior pointer (field of an object, element of an array) lives as long as the
		// object or array it points into
		if p.P.Kind == PHeap || p.P.Kind == PElem {
			return p.P.Ref
		}
	case KSlice:
		return p.E[0].S
	case KIface:
		x.materialize(st, p)
		return p.E[1].S
	case KScalar:
		if p.Srt == "Int" {
			return p.S
		}
	}
	panic(unsupported("reference of %s", p))
}

func (x *Exec) strOf(term string) string {
	for v, n := range x.sc.strLits {
		if n == term {
			return v
		}
	}
	panic(unsupported("string argument must be a literal"))
}

func (x *Exec) lockComp(st *State, p *Ptr) *HeapSym {
	key := "L|" + typeKey(p.Root) + "|" + pathString(p.Root, p.Path)
	return x.heapSym(st, key, compInfo{sort: "(Array Int Bool)"})
}

// ---- contracts at call sites ----

func (x *Exec) contractCall(fn *ssa.Function, key string, ctr *Contract, args []*Val, bindings []*Val, st *State, sig *types.Signature, pos token.Pos) *Val {
	x.usedContract[key] = true
	if b := ctr.brokenClause(); b != nil {
		panic(unsupported("contract of callee %s has a clause that no longer type-checks (%s: %s)", shortKey(x.P, key), clauseName(b), b.Broken))
	}
	if ctr.Variadic && len(args) != len(ctr.Params) {
		panic(unsupported("variadic arity mismatch for %s", key))
	}
	// Interior pointers (into a struct field, a slice element or a local cell) cannot be handed to
	// a callee whose contract is stated over objects of the pointee type: copy the pointee into a
	// temporary object, pass that, and copy it back after the call (sound as long as the callee does
	// not retain the pointer or reach the enclosing object another way - listed as an assumption).
	type copyBack struct {
		orig *Ptr
		tmp  *Ptr
	}
	var backs []copyBack
	args = append([]*Val(nil), args...)
	for i, a := range args {
		if a == nil || a.K != KPtr {
			continue
		}
		if a.P.Kind == PHeap && len(a.P.Path) == 0 {
			continue
		}
		t := ptrRootAt(a.P)
		if _, isMutex := opaqueSort(t); isMutex {
			continue
		}
		ref := x.alloc(st)
		tmp := &Ptr{Kind: PHeap, Ref: ref, Root: t}
		x.store(st, tmp, x.load(st, a.P))
		backs = append(backs, copyBack{a.P, tmp})
		args[i] = &Val{K: KPtr, T: a.T, P: tmp}
		x.interiorArgs = true
	}
	defer func() {
		for _, b := range backs {
			x.store(st, b.orig, x.load(st, b.tmp))
		}
	}()
	inst := map[string]*Val{}
	bindingVals := x.bindingValues(st, fn, bindings)
	savedCF := x.clauseFn
	x.clauseFn = fn
	defer func() { x.clauseFn = savedCF }()
	for _, cl := range ctr.Requires {
		if strings.HasPrefix(cl.Label, "ASSUME.") {
			continue
		}
		cargs := x.clauseArgs(ctr, cl, args, bindingVals, nil, x.instLogicals(ctr, cl, inst))
		g := x.evalClauseFn(cl.Fn, cargs, st, st)
		x.oblige(st, "pre", cl.Label, shortKey(x.P, key)+":"+clauseName(cl), g, pos)
	}
	old := st.clone()
	// callee writes some components only in objects it allocates itself: remember old contents
	calleeFresh := x.expandKeys(ctr.Fresh)
	// the caller promised fresh-only writes for some components: the callee must promise the same
	calleeArgW := x.argWriteKeys(ctr, args)
	if x.spec == 0 && (len(x.rootFresh) > 0 || len(x.loopFresh) > 0 || len(x.rootArgW) > 0) && !ctr.Pure {
		var cw *WriteSet
		if ctr.Trusted || fn == nil || len(fn.Blocks) == 0 || ctr.Ext || len(ctr.Modifies) > 0 {
			cw = newWS()
			x.contractWrites(ctr, fn, cw, map[*ssa.Function]bool{})
		} else {
			cw = x.effects(fn)
		}
		for _, k := range cw.sortedKeys() {
			if calleeFresh[k] {
				continue
			}
			rootArg, restricted := x.rootArgW[k]
			if !x.freshActive(k) && !restricted {
				continue
			}
			if ar, ok := calleeArgW[k]; ok {
				// the callee writes this component only inside its argument object: that object must be
				// one this function may write (fresh here, or this function's own declared argument)
				g := "(> " + ar + " " + x.top0 + ")"
				if !x.freshActive(k) && restricted {
					g = or(eq(ar, rootArg), g)
				}
				if !x.isFreshRef(ar) {
					x.oblige(st, "frame", "", "callee "+shortKey(x.P, key)+" writes "+compShort(k)+" of its argument, which must be an object this function may write", g, pos)
				}
				continue
			}
			x.oblige(st, "frame", "", "callee "+shortKey(x.P, key)+" may write "+compShort(k)+" of existing objects (no freshwrites in its contract)", "false", pos)
		}
	}
	topBefore := st.allocTop
	// effects
	switch {
	case ctr.Pure && len(ctr.Fresh) == 0:
		x.bumpTop(st) // the callee may still allocate (fresh results)
	case ctr.ModAll:
		x.havocAll(st)
	case len(ctr.Modifies) > 0 || ctr.Trusted || fn == nil || len(fn.Blocks) == 0 || ctr.Ext:
		x.bumpTop(st)
		for _, m := range ctr.Modifies {
			x.havocKeys(st, x.modifiesKeys(m))
		}
		// components written in fresh objects only are modified as well (framed below)
		for _, m := range ctr.Fresh {
			x.havocKeys(st, x.modifiesKeys(m))
		}
	default:
		ws := x.effects(fn)
		if ws.all {
			x.havocAll(st)
		} else {
			x.bumpTop(st)
			keys := ws.sortedKeys()
			if len(ctr.Appends) > 0 {
				// A log the callee declares under `appends` and that its body (with everything it calls)
				// does not touch otherwise receives exactly the one entry appended below: it need not
				// be forgotten first.
				bw := x.bodyWrites(fn, map[*ssa.Function]bool{})
				skip := map[string]bool{}
				for _, lg := range ctr.Appends {
					nk, ek := x.logKeys(lg)
					if !bw.all && !bw.keys[nk] && !bw.keys[ek] {
						skip[nk], skip[ek] = true, true
					}
				}
				var kept []string
				for _, k := range keys {
					if !skip[k] {
						kept = append(kept, k)
					}
				}
				keys = kept
			}
			x.havocKeys(st, keys)
		}
	}
	for k := range calleeFresh {
		ci := x.compInfoOfKey(k)
		b := x.heapSym(old, k, ci)
		a := x.heapSym(st, k, ci)
		if a != b {
			x.frameOld(b, a, topBefore)
		}
	}
	for k, ar := range calleeArgW {
		if calleeFresh[k] {
			continue
		}
		ci := x.compInfoOfKey(k)
		b := x.heapSym(old, k, ci)
		a := x.heapSym(st, k, ci)
		if a != b {
			// objects that existed before the call, other than the argument object, keep this component
			x.sc.emit("(assert (forall ((r Int)) (! (=> (and (<= r %s) (not (= r %s))) (= (select %s r) (select %s r))) :pattern ((select %s r)))))", topBefore, ar, x.use(a), x.use(b), x.use(a))
		}
	}
	for _, lg := range ctr.Appends {
		x.appendLog(st, lg)
	}
	if ctr.NoReturn {
		x.oblige(st, "unreach", "", "call of "+shortKey(x.P, key), "false", pos)
		st.pc = "false"
		return x.freshResults(st, sig, key)
	}
	res := x.freshResults(st, sig, key)
	var resList []*Val
	if res != nil {
		if sig.Results().Len() == 1 {
			resList = []*Val{res}
		} else {
			resList = res.E
		}
	}
	savedBase := x.allocBase
	x.allocBase = topBefore
	defer func() { x.allocBase = savedBase }()
	for _, cl := range append(append([]*Clause{}, ctr.Defines...), ctr.Ensures...) {
		if strings.HasSuffix(cl.Label, "@self") {
			// proved for the function itself, not exported to its callers (a caller that knew it
			// would find its own defensive error paths unreachable)
			continue
		}
		for _, inst1 := range x.logicalInstances(cl) {
			binders, inst2 := x.bindFreeLogicals(ctr, cl, inst1)
			cargs := x.clauseArgs(ctr, cl, args, bindingVals, resList, inst2)
			g := x.evalClauseFn(cl.Fn, cargs, st, old)
			if len(binders) > 0 {
				x.sc.binder--
				x.sc.boundVars = x.sc.boundVars[:len(x.sc.boundVars)-len(binders)]
				g = "(forall (" + strings.Join(binders, " ") + ") " + g + ")"
			}
			x.sc.assume(implies(st.pc, g))
		}
	}
	return res
}

func (x *Exec) bumpTop(st *State) {
	x.needFreshNow()
	x.prevTop = st.allocTop
	top := x.sc.declare("top", "Int")
	x.sc.assume("(>= " + top + " " + st.allocTop + ")")
	st.allocTop = top
}

// bindingValues turns by-reference closure bindings into the values of the captured variables.
func (x *Exec) bindingValues(st *State, fn *ssa.Function, bindings []*Val) []*Val {
	if fn == nil || len(bindings) == 0 {
		return bindings
	}
	out := make([]*Val, len(bindings))
	for i, b := range bindings {
		out[i] = b
		if i < len(fn.FreeVars) {
			if _, isPtr := fn.FreeVars[i].Type().(*types.Pointer); isPtr && b.K == KPtr {
				out[i] = x.load(st, b.P)
			}
		}
	}
	return out
}

// instLogicals: a callee logical is instantiated by the caller's logical of the same name.
func (x *Exec) instLogicals(ctr *Contract, cl *Clause, inst map[string]*Val) map[string]*Val {
	out := map[string]*Val{}
	for i, a := range cl.Args {
		if a.Kind != "logical" {
			continue
		}
		if v, ok := inst[a.Name]; ok {
			out[a.Name] = v
			continue
		}
		if x.rootHasLogical(a.Name) {
			out[a.Name] = x.logical(a.Name, a.Type, cl.Fn, i)
		} else {
			// requires with an unbound logical: take a fresh constant (must hold for some value we pick)
			out[a.Name] = x.logical("callee_"+a.Name, a.Type, cl.Fn, i)
		}
	}
	return out
}

func (x *Exec) rootHasLogical(name string) bool {
	if x.rootCtr == nil {
		return false
	}
	for _, l := range x.rootCtr.Logicals {
		if l.Name == name {
			return true
		}
	}
	return false
}

// logicalInstances: a callee logical that the caller does not declare under the same name is
// instantiated with every caller logical of the same type (each instance of a universally valid
// fact is valid); if there is none it stays universally quantified.
func (x *Exec) logicalInstances(cl *Clause) []map[string]*Val {
	out := []map[string]*Val{{}}
	if x.rootCtr == nil {
		return out
	}
	for i, a := range cl.Args {
		if a.Kind != "logical" || x.rootHasLogical(a.Name) {
			continue
		}
		var cands []*Val
		for _, l := range x.rootCtr.Logicals {
			if l.Type == a.Type {
				if v, ok := x.logicals[l.Name]; ok {
					cands = append(cands, v)
				} else {
					// declare it now: find a clause function of the root that has it
					if v := x.rootLogical(l.Name); v != nil {
						cands = append(cands, v)
					}
				}
			}
		}
		_ = i
		if len(cands) == 0 {
			continue
		}
		var next []map[string]*Val
		for _, m := range out {
			for _, c := range cands {
				n := map[string]*Val{}
				for k, v := range m {
					n[k] = v
				}
				n[a.Name] = c
				next = append(next, n)
			}
		}
		out = next
	}
	return out
}

// rootLogical creates the logical variable name of the function under verification.
func (x *Exec) rootLogical(name string) *Val {
	if v, ok := x.logicals[name]; ok {
		return v
	}
	var all []*Clause
	all = append(all, x.rootCtr.Requires...)
	all = append(all, x.rootCtr.Ensures...)
	all = append(all, x.rootCtr.Invs...)
	for _, cl := range all {
		for i, a := range cl.Args {
			if a.Kind == "logical" && a.Name == name {
				return x.logical(name, a.Type, cl.Fn, i)
			}
		}
	}
	return nil
}

// bindFreeLogicals: ensures clauses with logicals the caller does not have are universally quantified.
func (x *Exec) bindFreeLogicals(ctr *Contract, cl *Clause, inst map[string]*Val) ([]string, map[string]*Val) {
	out := map[string]*Val{}
	var binders []string
	for i, a := range cl.Args {
		if a.Kind != "logical" {
			continue
		}
		if v, ok := inst[a.Name]; ok {
			out[a.Name] = v
			continue
		}
		if x.rootHasLogical(a.Name) {
			out[a.Name] = x.logical(a.Name, a.Type, cl.Fn, i)
			continue
		}
		fn := x.P.spkg.Func(cl.Fn)
		t := fn.Signature.Params().At(i).Type()
		srt, ok := x.scalarSort(t)
		if !ok {
			panic(unsupported("logical variable of type %s", t))
		}
		n := x.sc.fresh("lq_" + a.Name)
		if len(binders) == 0 {
			x.sc.binder++
		}
		x.sc.boundVars = append(x.sc.boundVars, [2]string{n, srt})
		binders = append(binders, "("+n+" "+srt+")")
		out[a.Name] = scalar(t, n, srt)
	}
	return binders, out
}

// ---- go / defer / channels ----

func (x *Exec) goStmt(f *frame, v *ssa.Go, st *State) {
	// The spawned function runs asynchronously; it is verified as its own entry point. Arguments are
	// evaluated here (they may escape).
	for _, a := range v.Call.Args {
		x.val(f, a)
	}
	x.warn("go statement in %s: spawned function verified separately, its effects are not part of this VC", fnKey(f.fn))
}

func (x *Exec) deferStmt(f *frame, v *ssa.Defer, st *State) {
	var args []*Val
	for _, a := range v.Call.Args {
		args = append(args, x.val(f, a))
	}
	call := v.Call
	pos := v.Pos()
	x.deferN++
	st.defers = append(st.defers, deferred{id: x.deferN, cond: f.blockPC[v.Block()], block: v.Block(), call: func(s *State) {
		x.callCommon(f, &call, args, s, pos)
	}})
}

func (x *Exec) blockingOp(st *State, what string, pos token.Pos) {
	// recorded for the block sweep; no obligation by default
	x.blocking = append(x.blocking, fmt.Sprintf("%s at %s", what, x.srcPos(pos)))
}

func (x *Exec) sendStmt(f *frame, v *ssa.Send, st *State) {
	val := x.val(f, v.X)
	ch := x.val(f, v.Chan)
	x.blockingOp(st, "chan send", v.Pos())
	x.logSend(st, "true", ch, val)
}

// logSend: ghost log "send" gets one entry (fields send.chan, send.val) when cond holds.
func (x *Exec) logSend(st *State, cond string, ch, val *Val) {
	x.logChanOp(st, "send", cond, ch, val)
}

// logChanOp: ghost log `name` ("send" / "recv") gets one entry when cond holds: fields <name>.chan,
// <name>.val (scalar values), <name>.ref / <name>.len (slice values: backing array and length).
func (x *Exec) logChanOp(st *State, name string, cond string, ch, val *Val) {
	if x.spec > 0 {
		return
	}
	nk, ek := x.logKeys(name)
	n := x.use(x.heapSym(st, nk, x.keyInfo[nk]))
	e := x.use(x.heapSym(st, ek, x.keyInfo[ek]))
	x.sc.assume("(>= " + n + " 0)")
	id := x.alloc(st)
	x.setHeap(st, ek, x.keyInfo[ek], ite(cond, sto(e, n, id), e))
	x.setHeap(st, nk, x.keyInfo[nk], ite(cond, "(+ "+n+" 1)", n))
	for _, fn := range []string{"gf_" + name + "_chan", "gf_" + name + "_val", "gf_" + name + "_ref", "gf_" + name + "_len"} {
		if !x.sc.decl[fn] {
			x.sc.decl[fn] = true
			x.sc.ufDecls = append(x.sc.ufDecls, fmt.Sprintf("(declare-fun %s (Int) %s)", fn, bvSort(64)))
		}
	}
	x.sc.bridge[64] = true
	intField := func(f string, t string) {
		b := "(bvof64 " + t + ")"
		x.sc.assume(implies(cond, eq("(gf_"+name+"_"+f+" "+id+")", b)))
		x.sc.assume(implies(and("(<= 0 "+t+")", "(< "+t+" 4611686018427387904)"), eq("(nat64 "+b+")", t)))
	}
	intField("chan", ch.S)
	if val.K == KScalar && strings.HasPrefix(val.Srt, "(_ BitVec") {
		x.sc.assume(implies(cond, eq("(gf_"+name+"_val "+id+")", x.convNum(val.S, val.Srt, bvSort(64), false, false))))
	}
	if val.K == KSlice && len(val.E) >= 3 && val.E[0].Srt == "Int" && val.E[2].Srt == "Int" {
		intField("ref", val.E[0].S)
		intField("len", val.E[2].S)
	}
}

func (x *Exec) selectStmt(f *frame, v *ssa.Select, st *State) *Val {
	// (index int, recvOk bool, r_0 T_0, ... r_n-1 T_n-1): all unconstrained except the index range
	r := x.freshVal(v.Type(), "select")
	n := len(v.States)
	lo := x.sc.iConst(0)
	if !v.Blocking {
		lo = x.sc.iConst(-1)
	} else {
		x.blockingOp(st, "select", v.Pos())
	}
	x.sc.assume(and(x.sc.iLe(lo, r.E[0].S), x.sc.iLt(r.E[0].S, x.sc.iConst(int64(n)))))
	for i, ss := range v.States {
		if ss.Dir == types.SendOnly {
			x.logSend(st, eq(r.E[0].S, x.sc.iConst(int64(i))), x.val(f, ss.Chan), x.val(f, ss.Send))
		}
	}
	return r
}

// ---- built-in functions ----

func (x *Exec) builtin(f *frame, name string, c *ssa.CallCommon, args []*Val, st *State, pos token.Pos) *Val {
	I := x.sc.intSort()
	intT := types.Typ[types.Int]
	switch name {
	case "len":
		a := args[0]
		switch a.K {
		case KSlice:
			return scalar(intT, a.E[2].S, I)
		case KScalar:
			if a.Srt == "Str" {
				return scalar(intT, "(strlen "+a.S+")", I)
			}
			switch a.T.Underlying().(type) {
			case *types.Map:
				_, _, _, _, _, card, _, _ := x.mapComps(st, a.T)
				ca := x.use(card)
				x.sc.assume(x.sc.iLe(x.sc.iConst(0), sel(ca, a.S)))
				x.sc.assume(eq(sel(ca, "0"), x.sc.iConst(0)))
				return scalar(intT, sel(ca, a.S), I)
			case *types.Chan:
				r := x.freshVal(intT, "chanlen")
				x.sc.assume(x.sc.iLe(x.sc.iConst(0), r.S))
				return r
			}
		case KPtr:
			if at, ok := c.Args[0].Type().Underlying().(*types.Pointer); ok {
				return scalar(intT, x.sc.iConst(at.Elem().Underlying().(*types.Array).Len()), I)
			}
		case KTuple:
			if at, ok := a.T.Underlying().(*types.Array); ok {
				return scalar(intT, x.sc.iConst(at.Len()), I)
			}
		}
		panic(unsupported("len of %s", a))
	case "cap":
		a := args[0]
		if a.K == KSlice {
			return scalar(intT, a.E[3].S, I)
		}
		panic(unsupported("cap of %s", a))
	case "append":
		return x.appendOp(st, c.Args[0].Type(), args[0], args[1], c.Args[1].Type(), pos)
	case "copy":
		return x.copyOp(st, args[0], args[1], c.Args[0].Type(), pos)
	case "delete":
		x.mapDelete(st, c.Args[0].Type(), args[0].S, args[1])
		return nil
	case "close":
		x.closeChan(st, args[0], pos)
		return nil
	case "clear":
		if _, isMap := c.Args[0].Type().Underlying().(*types.Map); !isMap {
			panic(unsupported("clear of a slice"))
		}
		_, ks, pres, pk, pci, card, ck, cci := x.mapComps(st, c.Args[0].Type())
		m := args[0].S
		x.freshCheck(st, pk, m, pos)
		x.setHeap(st, pk, pci, sto(x.use(pres), m, x.constArray(ks, "Bool", "false")))
		x.setHeap(st, ck, cci, sto(x.use(card), m, x.sc.iConst(0)))
		return nil
	case "print", "println":
		return nil
	case "min", "max":
		r := args[0]
		for _, a := range args[1:] {
			op := token.LSS
			if name == "max" {
				op = token.GTR
			}
			c := x.cmp(op, a, r, a.T)
			r = x.mergeVals([]string{c, not(c)}, []*Val{a, r})
		}
		return r
	case "ssa:wrapnilchk":
		x.nilCheck(st, args[0], "method value", pos)
		return args[0]
	case "recover":
		return x.zero(types.NewInterfaceType(nil, nil))
	}
	panic(unsupported("builtin %s", name))
}

func (x *Exec) closeChan(st *State, ch *Val, pos token.Pos) {
	h := x.heapSym(st, "G|chanclosed", compInfo{sort: "(Array Int Bool)"})
	a := x.use(h)
	x.oblige(st, "chan", "", "close of nil channel", not(eq(ch.S, "0")), pos)
	x.oblige(st, "chan", "", "close of closed channel", not(sel(a, ch.S)), pos)
	x.setHeap(st, "G|chanclosed", compInfo{sort: "(Array Int Bool)"}, sto(a, ch.S, "true"))
}

// rangeCopy defines dst' = dst with [dlo, dlo+n) replaced by src[slo, slo+n) (memmove semantics).
func (x *Exec) rangeCopy(dst, src, dlo, slo, n, elemSort string) string {
	I := x.sc.intSort()
	nm := x.sc.declare("cpy", "(Array "+I+" "+elemSort+")")
	i := "i"
	inr := and(x.sc.iLe(dlo, i), x.sc.iLt(i, x.sc.iAdd(dlo, n)))
	srcIdx := x.sc.iAdd(slo, x.sc.iSub(i, dlo))
	x.sc.emit("(assert (forall ((i %s)) (! (= (select %s i) (ite %s (select %s %s) (select %s i))) :pattern ((select %s i)))))", I, nm, inr, src, srcIdx, dst, nm)
	return nm
}

func isLit(s string) (int64, bool) {
	var n int64
	if _, err := fmt.Sscanf(s, "%d", &n); err == nil && fmt.Sprint(n) == s {
		return n, true
	}
	if strings.HasPrefix(s, "(_ bv") {
		var w int
		if _, err := fmt.Sscanf(s, "(_ bv%d %d)", &n, &w); err == nil {
			return n, true
		}
	}
	return 0, false
}

func (x *Exec) appendOp(st *State, st0 types.Type, s, t *Val, tt types.Type, pos token.Pos) *Val {
	// Model of append. When the capacity suffices the elements are written in place (aliasing is
	// visible). Otherwise a fresh backing array is used. Offsets into backing arrays are not
	// observable in Go, so the fresh array keeps the old offset: its contents are the old array's
	// contents with the new elements written at the same absolute positions. Cells of the fresh
	// array outside [off, off+newLen) hold unspecified values (Go: zero) - reading them needs a
	// reslice beyond len, which the code under verification does not do (listed as an assumption).
	I := x.sc.intSort()
	et := x.sliceElem(st0)
	if x.sc.binder > 0 {
		panic(unsupported("append under a quantifier"))
	}
	var n, tptr, toff string
	fromString := false
	switch t.K {
	case KSlice:
		n, tptr, toff = t.E[2].S, t.E[0].S, t.E[1].S
	case KScalar:
		if t.Srt != "Str" {
			panic(unsupported("append of %s", t))
		}
		fromString = true
		n = "(strlen " + t.S + ")"
	default:
		panic(unsupported("append of %s", t))
	}
	ptr, off, ln, cp := s.E[0].S, s.E[1].S, s.E[2].S, s.E[3].S
	newLen := x.sc.define("alen", I, x.sc.iAdd(ln, n))
	inplace := x.sc.define("inplace", "Bool", and(x.sc.iLe(newLen, cp), not(eq(ptr, "0"))))
	if lit, ok := isLit(n); ok && lit == 0 {
		return s
	}
	newRef := x.alloc(st)
	newCap := x.sc.declare("newcap", I)
	x.sc.assume(x.sc.iLe(newLen, newCap))
	x.sc.assume(x.sc.iLe(newCap, x.sc.iConst(1<<41)))
	one := false
	if lit, ok := isLit(n); ok && lit == 1 {
		one = true
	}
	z := x.sc.iConst(0)
	rptr := x.sc.define("aptr", "Int", ite(inplace, ptr, newRef))
	end := x.sc.define("aend", I, x.sc.iAdd(off, ln))
	for _, l := range x.leaves(et) {
		key := "E|" + typeKey(et) + "|" + l.Path
		ci := x.eInfo(l)
		h := x.heapSym(st, key, ci)
		E := x.use(h)
		A := x.sc.define("arr", "(Array "+I+" "+l.Sort+")", sel(E, ptr))
		var nA string
		if fromString {
			if l.Sort != bvSort(8) {
				panic(unsupported("append string to non-byte slice"))
			}
			sa := x.sc.declare("strarr", "(Array "+I+" "+l.Sort+")")
			x.sc.emit("(assert (forall ((i %s)) (! (= (select %s i) (strbyte %s i)) :pattern ((select %s i)))))", I, sa, t.S, sa)
			nA = x.rangeCopy(A, sa, end, z, n, l.Sort)
		} else if one {
			nA = sto(A, end, sel(sel(E, tptr), toff))
		} else {
			T := x.sc.define("tarr", "(Array "+I+" "+l.Sort+")", sel(E, tptr))
			nA = x.rangeCopy(A, T, end, toff, n, l.Sort)
		}
		x.freshCheck(st, key, rptr, pos)
		x.setHeap(st, key, ci, sto(E, rptr, nA))
	}
	r := &Val{K: KSlice, T: st0}
	r.E = []*Val{
		scalar(nil, rptr, "Int"),
		scalar(nil, off, I),
		scalar(nil, newLen, I),
		scalar(nil, x.sc.define("acap", I, ite(inplace, cp, newCap)), I)}
	return r
}

func (x *Exec) copyOp(st *State, d, s *Val, dt types.Type, pos token.Pos) *Val {
	I := x.sc.intSort()
	et := x.sliceElem(dt)
	var sl string
	if s.K == KSlice {
		sl = s.E[2].S
	} else {
		sl = "(strlen " + s.S + ")"
	}
	n := x.sc.define("ncopy", I, ite(x.sc.iLt(d.E[2].S, sl), d.E[2].S, sl))
	newD, srcA := map[string]string{}, map[string]string{}
	defer func() {
		if s.K == KSlice && x.sc.binder == 0 {
			x.contentLemma(et, newD, srcA, d.E[1].S, s.E[1].S, n)
		}
	}()
	for _, l := range x.leaves(et) {
		key := "E|" + typeKey(et) + "|" + l.Path
		ci := x.eInfo(l)
		h := x.heapSym(st, key, ci)
		E := x.use(h)
		D := sel(E, d.E[0].S)
		var nd string
		if s.K == KSlice {
			nd = x.rangeCopy(D, sel(E, s.E[0].S), d.E[1].S, s.E[1].S, n, l.Sort)
			newD[l.Path], srcA[l.Path] = nd, x.sc.define("srcarr", "(Array "+I+" "+l.Sort+")", sel(E, s.E[0].S))
		} else {
			sa := x.sc.declare("strarr", "(Array "+I+" "+l.Sort+")")
			x.sc.emit("(assert (forall ((i %s)) (! (= (select %s i) (strbyte %s i)) :pattern ((select %s i)))))", I, sa, s.S, sa)
			nd = x.rangeCopy(D, sa, d.E[1].S, x.sc.iConst(0), n, l.Sort)
		}
		x.freshCheck(st, key, d.E[0].S, pos)
		x.setHeap(st, key, ci, sto(E, d.E[0].S, nd))
	}
	return scalar(types.Typ[types.Int], n, I)
}

// ---- ghost logs ----
//
// A ghost log NAME is a counter and an array of entry identifiers. Entries are immutable objects
// with fresh identifiers; their fields are functions of the identifier (gfield). Logs are
// append-only: whenever the engine has to forget a log (loop or call havoc) it keeps the entries
// below the old length and knows that later identifiers are fresh.
func (x *Exec) logKeys(name string) (string, string) {
	nk, ek := "G|log:"+name+".n", "G|log:"+name+".e"
	x.keyInfo[nk] = compInfo{sort: "Int"}
	x.keyInfo[ek] = compInfo{sort: "(Array Int Int)"}
	return nk, ek
}

// appendLog: exactly one new entry with a fresh identifier.
func (x *Exec) appendLog(st *State, name string) {
	nk, ek := x.logKeys(name)
	n := x.use(x.heapSym(st, nk, x.keyInfo[nk]))
	e := x.use(x.heapSym(st, ek, x.keyInfo[ek]))
	x.sc.assume("(>= " + n + " 0)")
	id := x.alloc(st)
	x.setHeap(st, ek, x.keyInfo[ek], sto(e, n, id))
	x.setHeap(st, nk, x.keyInfo[nk], "(+ "+n+" 1)")
}

// havocKeys havocs components; ghost logs keep their append-only shape.
func (x *Exec) havocKeys(st *State, keys []string) {
	for _, k := range keys {
		if strings.HasPrefix(k, "G|log:") {
			if strings.HasSuffix(k, ".e") {
				continue // handled with its counter
			}
			name := strings.TrimSuffix(strings.TrimPrefix(k, "G|log:"), ".n")
			nk, ek := x.logKeys(name)
			n0 := x.use(x.heapSym(st, nk, x.keyInfo[nk]))
			e0 := x.use(x.heapSym(st, ek, x.keyInfo[ek]))
			x.havocKey(st, nk, x.keyInfo[nk])
			x.havocKey(st, ek, x.keyInfo[ek])
			n1 := x.use(st.heap[nk])
			e1 := x.use(st.heap[ek])
			x.sc.assume("(>= " + n0 + " 0)")
			x.sc.assume("(>= " + n1 + " " + n0 + ")")
			x.sc.emit("(assert (forall ((k Int)) (! (=> (< k %s) (= (select %s k) (select %s k))) :pattern ((select %s k)))))", n0, e1, e0, e1)
			x.sc.emit("(assert (forall ((k Int)) (! (=> (and (<= %s k) (< k %s)) (and (> (select %s k) %s) (<= (select %s k) %s))) :pattern ((select %s k)))))", n0, n1, e1, x.logTopBefore(st), e1, st.allocTop, e1)
			continue
		}
		x.havocKey(st, k, x.compInfoOfKey(k))
	}
}

func (x *Exec) logTopBefore(st *State) string {
	if x.prevTop != "" {
		return x.prevTop
	}
	return x.top0
}

func isCancelFunc(t types.Type) bool {
	n, ok := t.(*types.Named)
	return ok && n.Obj().Pkg() != nil && n.Obj().Pkg().Path() == "context" && n.Obj().Name() == "CancelFunc"
}
