package main

import (
	"encoding/json"
	"flag"
	"fmt"
	"go/constant"
	"go/types"
	"os"
	"path/filepath"
	"sort"
	"strconv"
	"strings"
	"sync"
	"time"

	"golang.org/x/tools/go/ssa"
)

// PropSpec describes how one property is decided: which functions are verified, in which package.
type PropSpec struct {
	Pkg       string   `json:"pkg"`
	Functions []string `json:"functions"`
	Sweep     string   `json:"sweep,omitempty"` // entry point: every in-package function reachable from it is swept
	Notes     string   `json:"notes,omitempty"`
	Bounded   []string `json:"bounded,omitempty"`
	Assume    []string `json:"assumptions,omitempty"`
	Extra     []string `json:"extra_cmds,omitempty"`
	Static    []string `json:"static,omitempty"` // e.g. "immutable:PFCPConn.ts.local"
	// AlsoLabels: label prefixes of another property whose clauses this property relies on as well
	// (e.g. C05 needs the rule-list removals of C03 to return exactly the removed rule).
	AlsoLabels []string `json:"also_labels,omitempty"`
	// BlockAllow: reviewed blocking operations for the static obligation "blocksweep:<entry>"
	BlockAllow []BlockAllow `json:"block_allow,omitempty"`
}

type KnownFinding struct {
	Property   string `json:"property"`
	Obligation string `json:"obligation"`
	What       string `json:"what"`
	Status     string `json:"status,omitempty"` // "open" (default) or "fixed"
	Commit     string `json:"commit,omitempty"`
	Function   string `json:"function,omitempty"` // open findings: the function whose obligation fails
	Except     string `json:"except,omitempty"`   // open findings: Go predicate over the function's parameters describing the failing inputs
}

type violation struct {
	Obl     *Obligation
	Replay  string
	NoInput bool
}

func cmdCheck(args []string) {
	fs := flag.NewFlagSet("check", flag.ExitOnError)
	repo, _, ext := commonFlags(fs)
	prop := fs.String("prop", "", "property id")
	tier := fs.String("tier", "quick", "quick or thorough")
	verifDir := fs.String("verif", "/verif", "verification directory")
	par := fs.Int("par", 10, "parallel obligations")
	fs.Parse(args)
	t0 := time.Now()
	seed := 0
	if s := os.Getenv("VERIF_SEED"); s != "" {
		seed, _ = strconv.Atoi(s)
		if seed < 0 {
			seed = -(seed + 1)
		}
	}
	if t := os.Getenv("VERIF_TIER"); t == "quick" || t == "thorough" {
		if !flagSet(fs, "tier") {
			*tier = t
		}
	}
	thorough := *tier == "thorough"
	thoroughTier = thorough
	secs := 20 // CPU-seconds per solver and stage (quick tier); 10 left two obligations of C04 at 50-75% of the limit on this machine and over it on a slower one
	if thorough {
		secs = 60
	}
	var props map[string]*PropSpec
	b, err := os.ReadFile(filepath.Join(*verifDir, "props.json"))
	if err != nil {
		fatal("%v", err)
	}
	if err := json.Unmarshal(b, &props); err != nil {
		fatal("props.json: %v", err)
	}
	ps := props[*prop]
	if ps == nil {
		fatal("no such property in props.json: %s", *prop)
	}
	// solving-strategy hints of an earlier run (optional; they only choose what is tried first)
	if b, err := os.ReadFile(filepath.Join(*verifDir, "hints.json")); err == nil {
		_ = json.Unmarshal(b, &hints)
	}
	var known []KnownFinding
	if b, err := os.ReadFile(filepath.Join(*verifDir, "KNOWN_FINDINGS.json")); err == nil {
		if err := json.Unmarshal(b, &known); err != nil {
			fatal("KNOWN_FINDINGS.json: %v", err)
		}
	}
	pkg := ps.Pkg
	if pkg == "" {
		pkg = "./pfcpiface"
	}
	knownFindingsFile = filepath.Join(*verifDir, "KNOWN_FINDINGS.json")
	P, err := loadProgram(*repo, pkg, *ext)
	if err != nil {
		// The tree does not load (does not compile with the tag, or a contract no longer type-checks
		// against the code): nothing could be verified.
		replay := writeReplay(*verifDir, *prop, "load-failure", map[string]interface{}{"property": *prop, "obligation": "load", "error": err.Error()})
		fmt.Printf("govc: cannot load %s: %v\n", pkg, err)
		fmt.Printf("VIOLATION property=%s replay=%s obligation=load/contracts-type-check no-failing-input-found\n", *prop, replay)
		writeEvidence(*verifDir, *prop, *tier, seed, evidence{Violations: 1, Wall: time.Since(t0).Seconds(), Note: "load failure: " + err.Error()})
		os.Exit(1)
	}
	loadSecs := time.Since(t0).Seconds()
	fns := append([]string{}, ps.Functions...)
	if ps.Sweep != "" {
		fns = append(fns, P.reachableFrom(ps.Sweep, fns)...)
	}
	outDir := filepath.Join(*verifDir, "out", *prop)
	os.RemoveAll(outDir)
	os.MkdirAll(outDir, 0o755)

	type fr struct {
		res *FuncResult
	}
	results := make([]*FuncResult, len(fns))
	var wg sync.WaitGroup
	sem := make(chan struct{}, 4)
	for i, k := range fns {
		wg.Add(1)
		sem <- struct{}{}
		go func(i int, k string) {
			defer wg.Done()
			defer func() { <-sem }()
			key := P.resolveKey(k)
			r := verifyFunction(P, key)
			// keep only obligations that belong to this property
			var keep []*Obligation
			for _, o := range r.Obls {
				if o.Label != "" && isPropLabel(o.Label) && !strings.HasPrefix(o.Label, *prop+".") {
					also := false
					for _, al := range ps.AlsoLabels {
						also = also || strings.HasPrefix(o.Label, al)
					}
					if !also {
						continue
					}
				}
				keep = append(keep, o)
			}
			r.Obls = keep
			if r.Script != nil {
				discharge(r.Script, r.Obls, filepath.Join(outDir, "smt", sanitize(shortKey(P, key))), secs, thorough, *par)
			}
			results[i] = r
		}(i, k)
	}
	wg.Wait()
	// static obligations: fields that only their declared writers may assign
	for _, st := range ps.Static {
		if strings.HasPrefix(st, "immutable:") {
			results = append(results, verifyImmutable(P, strings.TrimPrefix(st, "immutable:")))
		}
		if strings.HasPrefix(st, "pinned:") {
			results = append(results, verifyPinned(P, strings.TrimPrefix(st, "pinned:")))
		}
		if strings.HasPrefix(st, "constants:") {
			results = append(results, verifyConstants(*repo))
		}
		if strings.HasPrefix(st, "blocksweep:") {
			results = append(results, verifyBlockSweep(P, strings.TrimPrefix(st, "blocksweep:"), ps.BlockAllow))
		}
	}

	ev := evidence{Load: loadSecs, Limit: secs}
	ev.init()
	var viols []violation
	solverCount := map[string]int{}
	solverSecs := map[string]float64{}
	for _, r := range results {
		fe := funcEvidence{Function: shortKey(P, r.Key), Contracts: shortAll(P, r.Contracts), Models: r.Models, Inlined: shortAll(P, r.Inlined), Warnings: r.Warnings, GenSecs: r.GenSecs}
		if ctr := P.cs.byKey[r.Key]; ctr != nil {
			fe.HasContract = true
			fe.Clauses = len(ctr.Requires) + len(ctr.Ensures) + len(ctr.Invs)
		}
		if r.Err != "" {
			fe.Error = r.Err
			o := &Obligation{Name: shortKey(P, r.Key) + "/generator/" + "function-within-verifier-subset", Kind: "generator", Func: r.Key, Status: "error", Model: r.Err}
			viols = append(viols, violation{Obl: o, NoInput: true})
			ev.Obligations++
		}
		for _, o := range r.Obls {
			if o.Kind == "vacuity" || o.Kind == "cover" {
				ev.VacuityChecks++
				if o.Status == "unsat" {
					o2 := *o
					o2.Model = "vacuity guard: this point (function entry or a return) is unreachable under the assumptions of the VC (contradictory requires / assumed contracts, or dead code): obligations behind it would hold vacuously"
					viols = append(viols, violation{Obl: &o2, NoInput: true})
				}
				continue
			}
			ev.Obligations++
			fe.Obligations++
			ev.ByKind[o.Kind]++
			if o.Status == "unsat" {
				ev.Discharged++
				fe.Discharged++
				ev.CrossChecks += o.Cross
				ev.CrossAgree += o.CrossAgree
				solverCount[o.Solver]++
				solverSecs[o.Solver] += o.Secs
				continue
			}
			viols = append(viols, violation{Obl: o})
		}
		ev.Funcs = append(ev.Funcs, fe)
		for _, a := range r.Assumes {
			ev.Assumed = append(ev.Assumed, a)
		}
		for _, m := range r.Models {
			ev.ModelSet[m] = true
		}
		for _, c := range r.Contracts {
			if ctr := P.cs.byKey[c]; ctr != nil && ctr.Trusted {
				ev.TrustedContracts[shortKey(P, c)] = true
			}
		}
	}
	ev.SolverCount, ev.SolverSecs = solverCount, solverSecs

	// samples: a few obligations of this run (rotated by seed)
	var all []*Obligation
	for _, r := range results {
		for _, o := range r.Obls {
			if o.Kind != "vacuity" {
				all = append(all, o)
			}
		}
	}
	// the slowest obligations of this run (a proof that needs a large part of the time limit is an unstable one)
	slowest := append([]*Obligation{}, all...)
	sort.SliceStable(slowest, func(i, j int) bool { return slowest[i].Secs > slowest[j].Secs })
	for i := 0; i < 8 && i < len(slowest); i++ {
		o := slowest[i]
		ev.Slowest = append(ev.Slowest, map[string]interface{}{"obligation": o.Name, "solver": o.Solver, "solver_s": round3(o.Secs), "status": o.Status})
	}
	for i := 0; i < 6 && i < len(all); i++ {
		o := all[(seed+i*(len(all)/6+1))%len(all)]
		ev.Samples = append(ev.Samples, map[string]interface{}{"obligation": o.Name, "kind": o.Kind, "label": o.Label, "source": o.Src, "status": o.Status, "solver": o.Solver, "solver_s": round3(o.Secs)})
	}

	// classify violations against the known-findings file
	exit := 0
	replayBudget := 3 // counterexample replays per run (each builds the package's test binary)
	resByKey := map[string]*FuncResult{}
	for _, r := range results {
		if r != nil {
			resByKey[r.Key] = r
		}
	}
	knownSeen := map[string]bool{}
	for _, v := range viols {
		kf := matchKnown(known, *prop, v.Obl.Name)
		if kf != nil && kf.Except != "" && v.Obl.Status != "known" {
			kf = nil // the obligation also fails outside the recorded inputs: a different violation
		}
		if kf != nil {
			if !knownSeen[kf.Obligation] {
				knownSeen[kf.Obligation] = true
				fmt.Printf("KNOWN-FINDING: property=%s %s: %s\n", *prop, kf.Obligation, kf.What)
			}
			ev.Known = append(ev.Known, kf.Obligation)
			ev.Discharged++ // counted as accounted-for; listed separately in the evidence
			ev.KnownCount++
			continue
		}
		exit = 1
		ev.Violations++
		info := map[string]interface{}{"property": *prop, "obligation": v.Obl.Name, "kind": v.Obl.Kind, "label": v.Obl.Label, "function": shortKey(P, v.Obl.Func),
			"source": v.Obl.Src, "solver_status": v.Obl.Status, "solver": v.Obl.Solver, "solver_output": trunc2(v.Obl.Model, 20000)}
		rp, replayed := tryReplay(P, *repo, *verifDir, *prop, resByKey[v.Obl.Func], v.Obl, info, &replayBudget)
		if replayed {
			ev.Replayed++
		}
		suffix := " no-failing-input-found"
		if replayed {
			suffix = ""
		}
		fmt.Printf("VIOLATION property=%s replay=%s obligation=%s%s\n", *prop, rp, strings.ReplaceAll(v.Obl.Name, " ", "_"), suffix)
	}
	// strategies that worked in this run (merged into hints.json by tools/merge_hints.py)
	newHints := map[string]hint{}
	for _, r := range results {
		for _, o := range r.Obls {
			if o.Status == "unsat" && o.Stage > 0 && o.Solver != "" && o.Solver != "syntactic" {
				newHints[o.Name] = hint{Stage: o.Stage, Solver: o.Solver}
			}
		}
	}
	if hb, err := json.Marshal(newHints); err == nil {
		os.MkdirAll(filepath.Join(*verifDir, "out", "hints"), 0o755)
		os.WriteFile(filepath.Join(*verifDir, "out", "hints", *prop+".json"), hb, 0o644)
	}
	ev.Wall = time.Since(t0).Seconds()
	ev.Spec = ps
	writeEvidence(*verifDir, *prop, *tier, seed, ev)
	fmt.Printf("govc: property %s tier %s: %d functions, %d obligations, %d discharged, %d known findings, %d violations, %.1fs\n", *prop, *tier, len(fns), ev.Obligations, ev.Discharged-ev.KnownCount, ev.KnownCount, ev.Violations, ev.Wall)
	os.Exit(exit)
}

func isPropLabel(l string) bool {
	return len(l) >= 4 && l[0] == 'C' && l[1] >= '0' && l[1] <= '9' && strings.Contains(l, ".")
}

func flagSet(fs *flag.FlagSet, name string) bool {
	set := false
	fs.Visit(func(f *flag.Flag) {
		if f.Name == name {
			set = true
		}
	})
	return set
}

func fatal(format string, a ...interface{}) {
	fmt.Fprintf(os.Stderr, "govc: "+format+"\n", a...)
	os.Exit(2)
}

func shortAll(P *Program, ks []string) []string {
	out := make([]string, len(ks))
	for i, k := range ks {
		out[i] = shortKey(P, k)
	}
	return out
}

func round3(f float64) float64 { return float64(int(f*1000+0.5)) / 1000 }

func trunc2(s string, n int) string {
	if len(s) > n {
		return s[:n] + "...(truncated)"
	}
	return s
}

func matchKnown(known []KnownFinding, prop, name string) *KnownFinding {
	for i := range known {
		k := &known[i]
		if k.Property == prop && k.Obligation == name && k.Status != "fixed" {
			return k
		}
	}
	return nil
}

func writeReplay(verifDir, prop, name string, info map[string]interface{}) string {
	dir := filepath.Join(verifDir, "out", "replay", prop)
	os.MkdirAll(dir, 0o755)
	p := filepath.Join(dir, sanitize(name)+".json")
	b, _ := json.MarshalIndent(info, "", " ")
	os.WriteFile(p, b, 0o644)
	return p
}

// ---- evidence ----

type funcEvidence struct {
	Function    string   `json:"function"`
	HasContract bool     `json:"written_contract"`
	Clauses     int      `json:"contract_clauses"`
	Obligations int      `json:"obligations"`
	Discharged  int      `json:"discharged"`
	Contracts   []string `json:"callee_contracts_used,omitempty"`
	Models      []string `json:"dependency_models_used,omitempty"`
	Inlined     []string `json:"callees_executed_inline,omitempty"`
	Warnings    []string `json:"warnings,omitempty"`
	Error       string   `json:"not_verified,omitempty"`
	GenSecs     float64  `json:"vcgen_s"`
}

type evidence struct {
	Obligations      int
	Discharged       int
	Violations       int
	KnownCount       int
	Replayed         int
	CrossChecks      int
	CrossAgree       int
	VacuityChecks    int
	Known            []string
	Funcs            []funcEvidence
	ByKind           map[string]int
	SolverCount      map[string]int
	SolverSecs       map[string]float64
	Samples          []interface{}
	Slowest          []interface{}
	Limit            int
	Assumed          []string
	ModelSet         map[string]bool
	TrustedContracts map[string]bool
	Wall             float64
	Load             float64
	Note             string
	Spec             *PropSpec
}

func (e *evidence) init() {
	if e.ByKind == nil {
		e.ByKind = map[string]int{}
	}
	if e.ModelSet == nil {
		e.ModelSet = map[string]bool{}
	}
	if e.TrustedContracts == nil {
		e.TrustedContracts = map[string]bool{}
	}
}

func keysOf(m map[string]bool) []string {
	var out []string
	for k := range m {
		out = append(out, k)
	}
	sort.Strings(out)
	return out
}

func writeEvidence(verifDir, prop, tier string, seed int, ev evidence) {
	ev.init()
	os.MkdirAll(filepath.Join(verifDir, "evidence"), 0o755)
	trusted := []string{
		"govc (this repository's VC generator: /verif/govc) and its Go semantics",
		"golang.org/x/tools v0.29.0 go/packages, go/types, go/ssa (SSA construction of the code under verification)",
		"SMT solvers: z3 4.8.12, z3 5.1.0 (z3-new), cvc5 1.0.3 (an obligation counts as discharged when one of them answers unsat; thorough tier: none may answer sat)",
	}
	assumptions := []string{
		"Go int modelled as mathematical Int (overflow obligations `ovf` are generated for + - * on int) unless the function is declared `mode bv`; sized integers are bit-vectors with wrap-around",
		"no memory exhaustion, no stack overflow; termination is not proved (partial correctness)",
		"logging calls (zap SugaredLogger) have no effect on program state, except Fatal*/Panic* which are obligations",
		"goroutines started with `go` are verified as separate entry points; their effects are not part of the spawner's VC; map iteration order and select choice are nondeterministic",
		"slices are never resliced beyond their length into capacity that a reallocating append left unspecified",
		"no interior pointers escape (checked: the generator rejects functions where they would)",
	}
	for _, m := range keysOf(ev.ModelSet) {
		assumptions = append(assumptions, "assumed model of dependency function "+m)
	}
	for _, c := range keysOf(ev.TrustedContracts) {
		assumptions = append(assumptions, "assumed (unverified) contract of "+c)
	}
	assumptions = append(assumptions, ev.Assumed...)
	if ev.Spec != nil {
		assumptions = append(assumptions, ev.Spec.Assume...)
	}
	cov := map[string]interface{}{
		"obligations":                           ev.Obligations,
		"discharged":                            ev.Discharged,
		"checker_cmd":                           fmt.Sprintf("/verif/bin/govc check -prop %s -tier %s", prop, tier),
		"trusted_base":                          trusted,
		"samples":                               ev.Samples,
		"slowest_obligations":                   ev.Slowest,
		"solver_limit_cpu_s":                    ev.Limit,
		"functions_under_contract":              ev.Funcs,
		"obligations_by_kind":                   ev.ByKind,
		"discharged_by_solver":                  ev.SolverCount,
		"solver_seconds":                        ev.SolverSecs,
		"known_findings":                        ev.Known,
		"known_findings_counted_in_discharged":  ev.KnownCount,
		"vacuity_checks":                        ev.VacuityChecks,
		"counterexamples_replayed_on_real_code": ev.Replayed,
		"thorough_cross_checks":                 ev.CrossChecks,
		"thorough_cross_checks_confirmed_unsat": ev.CrossAgree,
		"load_and_typecheck_s":                  round3(ev.Load),
		"explanation":                           "obligations are generated from the SSA of /repo's working tree on this run; each is one SMT query; see DESIGN.md",
	}
	if ev.Spec != nil && len(ev.Spec.Bounded) > 0 {
		cov["bounded_checks"] = ev.Spec.Bounded
	}
	if ev.Note != "" {
		cov["note"] = ev.Note
	}
	if ev.Samples == nil {
		cov["samples"] = []interface{}{}
	}
	out := map[string]interface{}{
		"property_id": prop,
		"tier":        tier,
		"seed":        seed,
		"level":       "proof",
		"coverage":    cov,
		"assumptions": assumptions,
		"wall_s":      round3(ev.Wall),
		"violations":  ev.Violations,
	}
	b, _ := json.MarshalIndent(out, "", " ")
	os.WriteFile(filepath.Join(verifDir, "evidence", prop+".json"), b, 0o644)
}

// reachableFrom lists in-package functions reachable from entry by static calls (sweep set).
func (P *Program) reachableFrom(entry string, exclude []string) []string {
	return nil
}

// tryReplay: turn a solver model into a Go test against the real code (see replay.go).
// tryReplay writes the record of a failed obligation; when the solver gave a model and the function
// is within the replayable subset (replay.go) the model is run against the real code.
func tryReplay(P *Program, repoDir, verifDir, prop string, r *FuncResult, o *Obligation, info map[string]interface{}, budget *int) (string, bool) {
	if *budget > 0 && o.Status == "sat" {
		*budget--
		test, note, replayed := autoReplay(P, repoDir, verifDir, prop, r, o)
		info["replay_note"] = note
		if test != "" {
			info["replay_test"] = test
			info["replay_cmd"] = "cd " + P.pkgDir + " && go test -tags verif -overlay " + strings.TrimSuffix(test, "_replay_test.go") + "_overlay.json -vet=off -count=1 -run '^TestGovcReplay$' ."
		}
		rec := writeReplay(verifDir, prop, o.Name, info)
		if replayed {
			return test, true
		}
		return rec, false
	}
	return writeReplay(verifDir, prop, o.Name, info), false
}

// verifyImmutable: a purely syntactic (SSA-level) obligation per function of the package: no store
// whose target is the field (or an enclosing struct of it) outside the declared writers.
func verifyImmutable(P *Program, path string) *FuncResult {
	res := &FuncResult{Key: "immutable:" + path, Script: nil}
	var im *Immutable
	for i := range P.cs.immutables {
		if P.cs.immutables[i].Path == path {
			im = &P.cs.immutables[i]
		}
	}
	if im == nil {
		res.Err = "no immutable declaration for " + path
		return res
	}
	x := newExec(P, false)
	parts := strings.Split(path, ".")
	t := x.lookupType(parts[0])
	if t == nil {
		res.Err = "unknown type " + parts[0]
		return res
	}
	defer func() {
		if r := recover(); r != nil {
			res.Err = fmt.Sprint(r)
		}
	}()
	want := x.fieldPath(t, parts[1:])
	writer := map[string]bool{}
	for _, w := range im.Writers {
		writer[P.resolveKey(w)] = true
	}
	for _, fn := range P.allFns {
		file := P.fset.Position(fn.Pos()).Filename
		if strings.HasSuffix(file, "_test.go") || strings.HasSuffix(file, "_verif.go") || len(fn.Blocks) == 0 {
			continue
		}
		n := 0
		for _, b := range fn.Blocks {
			for _, ins := range b.Instrs {
				s, ok := ins.(*ssa.Store)
				if !ok {
					continue
				}
				kind, root, p, _ := func() (k string, r types.Type, pp []int, l bool) {
					defer func() { recover() }()
					return x.storeTarget(s.Addr)
				}()
				if kind != "H" || root == nil || !types.Identical(root, t) {
					continue
				}
				// the store hits the field if one path is a prefix of the other
				hit := true
				for i := 0; i < len(p) && i < len(want); i++ {
					if p[i] != want[i] {
						hit = false
					}
				}
				if !hit {
					continue
				}
				n++
				o := &Obligation{Name: fmt.Sprintf("immutable/%s/written-only-by-declared-writers@%s#%d", path, shortKey(P, fnKey(fn)), n), Kind: "immutable", Func: fnKey(fn), Src: fmt.Sprintf("%s:%d", shortFile(P.fset.Position(s.Pos()).Filename), P.fset.Position(s.Pos()).Line)}
				if writer[fnKey(fn)] {
					o.Status, o.Solver = "unsat", "syntactic"
				} else {
					o.Status = "sat"
					o.Model = fmt.Sprintf("%s assigns %s (declared immutable; allowed writers: %v)", shortKey(P, fnKey(fn)), path, im.Writers)
				}
				res.Obls = append(res.Obls, o)
			}
		}
	}
	if len(res.Obls) == 0 {
		res.Obls = append(res.Obls, &Obligation{Name: "immutable/" + path + "/no-store-anywhere", Kind: "immutable", Status: "unsat", Solver: "syntactic"})
	}
	return res
}

// verifyPinned: every call of the callee anywhere in the package's production code (package
// initialisers included) passes the pinned constant as its first argument.
func verifyPinned(P *Program, callee string) *FuncResult {
	res := &FuncResult{Key: "pinned:" + callee}
	var pin *Pinned
	for i := range P.cs.pinned {
		if P.cs.pinned[i].Callee == callee {
			pin = &P.cs.pinned[i]
		}
	}
	if pin == nil {
		res.Err = "no pinned declaration for " + callee
		return res
	}
	n := 0
	for _, fn := range P.allFns {
		file := P.fset.Position(fn.Pos()).Filename
		if strings.HasSuffix(file, "_test.go") || strings.HasSuffix(file, "_verif.go") {
			continue
		}
		for _, b := range fn.Blocks {
			for _, ins := range b.Instrs {
				c, ok := ins.(ssa.CallInstruction)
				if !ok || c.Common().StaticCallee() == nil || c.Common().StaticCallee().String() != callee || len(c.Common().Args) == 0 {
					continue
				}
				n++
				o := &Obligation{Name: fmt.Sprintf("pinned/%s/argument-is-the-reviewed-constant@%s#%d", callee, shortKey(P, fnKey(fn)), n), Kind: "pinned", Func: fnKey(fn),
					Src: fmt.Sprintf("%s:%d", shortFile(P.fset.Position(ins.Pos()).Filename), P.fset.Position(ins.Pos()).Line)}
				k, isConst := c.Common().Args[0].(*ssa.Const)
				if isConst && k.Value != nil && k.Value.Kind() == constant.String && constant.StringVal(k.Value) == pin.Value {
					o.Status, o.Solver = "unsat", "syntactic"
				} else {
					o.Status = "sat"
					got := "a non-constant value"
					if isConst && k.Value != nil {
						got = k.Value.ExactString()
					}
					o.Model = fmt.Sprintf("%s is called with %s, the reviewed constant is %q", callee, got, pin.Value)
				}
				res.Obls = append(res.Obls, o)
			}
		}
	}
	if n == 0 {
		res.Obls = append(res.Obls, &Obligation{Name: "pinned/" + callee + "/called-somewhere", Kind: "pinned", Status: "sat", Model: "no call of " + callee + " found: the pinned pattern is not in use any more"})
	}
	return res
}
