package main

import (
	"fmt"
	"go/ast"
	"go/parser"
	"go/token"
	"go/types"
	"regexp"
	"sort"
	"strconv"
	"strings"
)

// Clause is one requires / ensures / invariant line.
type Clause struct {
	Kind   string // requires, ensures, invariant
	Label  string // e.g. C17.cover ("" if none)
	Text   string // original text
	Go     string // text rewritten into Go
	Loop   int    // for invariants: loop ordinal (1-based, source order)
	Fn     string // name of the generated clause function
	Args   []ArgDesc
	Src    string // file:line
	Broken string // non-empty: the clause no longer type-checks against the code (message)
}

// ArgWrite: `writesarg <param> <components>`.
type ArgWrite struct {
	Param string
	Items []string
}

type ArgDesc struct {
	Kind string // recv, param, result, freevar, local, logical
	Idx  int
	Name string
	Type string
}

type Logical struct{ Name, Type string }

// Contract is the parsed //@ block of one function.
type Contract struct {
	Key         string // types.Func FullName (+ $n for closures)
	Decl        string // the func line as written
	RecvName    string
	Params      []ArgDesc // receiver first (Kind recv) then params
	Results     []ArgDesc
	Logicals    []Logical
	Requires    []*Clause
	Ensures     []*Clause
	Defines     []*Clause // ghost assignments at return: constrain the fields of the entries this call appends
	Invs        []*Clause
	Mode        string // "", "bv", "int"
	Inline      bool
	NoInline    bool
	Trusted     bool // assumed contract (dependency or explicitly trusted): body is not verified
	Pure        bool // modifies nothing
	Modifies    []string
	ModAll      bool
	Ext         bool
	Closure     int       // >0: n-th anonymous function of the parent
	FreeVars    []ArgDesc // for closures: names usable in clauses
	Src         string
	NoReturn    bool
	LoopMods    map[int][]string
	Variadic    bool
	Assumes     []string
	Props       []string
	Calls       map[string]map[string]string // callee key -> logical -> expression (instantiations)
	MayBlock    bool
	Nonblock    bool
	Unchecked   []string // obligation kinds not generated for this function (documented assumption)
	DeadReturns []int    // returns (source order) that the callee contracts make unreachable (defensive code)
	Lemmas      []string // opt-in lemma families (bvarith)
	Fresh       []string // components written only in objects allocated during the call
	LoopFresh   map[int][]string
	KFExcept    []KFClause
	Appends     []string   // ghost logs that receive exactly one entry per call (trusted primitives only)
	ArgWrites   []ArgWrite // components written only inside the object a pointer parameter refers to (or in fresh objects)
}

type KFClause struct {
	Obligation string
	Clause     *Clause
}

type Pinned struct {
	Callee string
	Value  string
}

type Immutable struct {
	Path    string
	Writers []string
}

type Guarded struct {
	Fields []string // "IPPool.freePool"
	Lock   string   // "IPPool.mu"
}

type ContractSet struct {
	byKey      map[string]*Contract
	order      []*Contract
	guarded    []Guarded
	goDecls    []string          // raw Go text from ext files
	imports    map[string]string // alias -> path
	ghostUF    map[string]bool   // uninterpreted ghost functions
	props      map[string][]string
	immut      []string
	errs       []string
	consts     map[string]bool
	typeInvs   map[string][]*Clause
	immutables []Immutable
	pinned     []Pinned
	srcPkgs    []string
}

var labelRe = regexp.MustCompile(`^([A-Za-z][A-Za-z0-9_.\-@]*):\s+`)

// parseContractText parses the //@ lines of one file. pkgPath qualifies in-package names.
func (cs *ContractSet) parseContractText(file string, lines []string, lineNos []int, ext bool) {
	var cur *Contract
	var lastClause *Clause
	for i, raw := range lines {
		src := fmt.Sprintf("%s:%d", file, lineNos[i])
		l := strings.TrimSpace(raw)
		if l == "" {
			continue
		}
		if strings.HasPrefix(l, "+") {
			if lastClause == nil {
				cs.errs = append(cs.errs, src+": continuation without clause")
				continue
			}
			lastClause.Text += " " + strings.TrimSpace(l[1:])
			continue
		}
		word, rest := splitWord(l)
		switch word {
		case "func":
			cur = &Contract{Decl: l, Ext: ext, Trusted: ext, Src: src, LoopMods: map[int][]string{}, Calls: map[string]map[string]string{}, LoopFresh: map[int][]string{}}
			cs.order = append(cs.order, cur)
			lastClause = nil
		case "guarded":
			// guarded T.f, T.g by T.mu
			parts := strings.Split(rest, " by ")
			if len(parts) != 2 {
				cs.errs = append(cs.errs, src+": bad guarded")
				continue
			}
			g := Guarded{Lock: strings.TrimSpace(parts[1])}
			for _, f := range strings.Split(parts[0], ",") {
				g.Fields = append(g.Fields, strings.TrimSpace(f))
			}
			cs.guarded = append(cs.guarded, g)
		case "import":
			// import alias "path"
			a, p := splitWord(rest)
			p = strings.Trim(strings.TrimSpace(p), `"`)
			cs.imports[a] = p
		case "srcpkg":
			// srcpkg <import path>: generated accessor methods (Get*) of this dependency are executed inline
			cs.srcPkgs = append(cs.srcPkgs, strings.Trim(strings.TrimSpace(rest), `"`))
		case "pinned":
			// pinned <callee> <Go string literal>: every call of callee passes exactly this constant
			w, lit := splitWord(rest)
			v, err := strconv.Unquote(strings.TrimSpace(lit))
			if err != nil {
				cs.errs = append(cs.errs, src+": pinned: bad string literal")
				continue
			}
			cs.pinned = append(cs.pinned, Pinned{Callee: w, Value: v})
		case "immutable":
			// immutable T.path writers F1, F2
			parts := strings.SplitN(rest, " writers ", 2)
			im := Immutable{Path: strings.TrimSpace(parts[0])}
			if len(parts) == 2 {
				for _, w := range strings.Split(parts[1], ",") {
					im.Writers = append(im.Writers, strings.TrimSpace(w))
				}
			}
			cs.immutables = append(cs.immutables, im)
		case "constglobal":
			cs.consts[strings.TrimSpace(rest)] = true
		case "mode", "logical", "requires", "ensures", "defines", "loop", "inline", "noinline", "trusted", "pure", "modifies", "noreturn", "assume", "call", "mayblock", "nonblocking", "unchecked", "appends", "lemmas", "freshwrites", "deadreturns", "writesarg":
			if cur == nil {
				cs.errs = append(cs.errs, src+": clause outside func block")
				continue
			}
			switch word {
			case "mode":
				cur.Mode = strings.TrimSpace(rest)
			case "inline":
				cur.Inline = true
			case "noinline":
				cur.NoInline = true
			case "trusted":
				cur.Trusted = true
			case "pure":
				cur.Pure = true
			case "noreturn":
				cur.NoReturn = true
			case "mayblock":
				cur.MayBlock = true
			case "nonblocking":
				cur.Nonblock = true
			case "deadreturns":
				for _, k := range strings.Split(rest, ",") {
					if n, err := strconv.Atoi(strings.TrimSpace(k)); err == nil {
						cur.DeadReturns = append(cur.DeadReturns, n)
					}
				}
			case "freshwrites":
				for _, k := range strings.Split(rest, ",") {
					cur.Fresh = append(cur.Fresh, strings.TrimSpace(k))
				}
			case "writesarg":
				pn, items := splitWord(rest)
				aw := ArgWrite{Param: pn}
				for _, k := range strings.Split(items, ",") {
					if k = strings.TrimSpace(k); k != "" {
						aw.Items = append(aw.Items, k)
					}
				}
				cur.ArgWrites = append(cur.ArgWrites, aw)
			case "lemmas":
				for _, k := range strings.Split(rest, ",") {
					cur.Lemmas = append(cur.Lemmas, strings.TrimSpace(k))
				}
			case "appends":
				for _, k := range strings.Split(rest, ",") {
					cur.Appends = append(cur.Appends, strings.TrimSpace(k))
				}
			case "unchecked":
				for _, k := range strings.Split(rest, ",") {
					cur.Unchecked = append(cur.Unchecked, strings.TrimSpace(k))
				}
			case "modifies":
				for _, m := range strings.Split(rest, ",") {
					m = strings.TrimSpace(m)
					if m == "*" {
						cur.ModAll = true
					} else if m != "" {
						cur.Modifies = append(cur.Modifies, m)
					}
				}
			case "logical":
				n, t := splitWord(rest)
				cur.Logicals = append(cur.Logicals, Logical{n, strings.TrimSpace(t)})
			case "call":
				// call <calleeKey> with p := expr
				parts := strings.SplitN(rest, " with ", 2)
				if len(parts) == 2 {
					ck := strings.TrimSpace(parts[0])
					as := strings.SplitN(parts[1], ":=", 2)
					if len(as) == 2 {
						if cur.Calls[ck] == nil {
							cur.Calls[ck] = map[string]string{}
						}
						cur.Calls[ck][strings.TrimSpace(as[0])] = strings.TrimSpace(as[1])
					}
				}
			case "requires", "ensures", "assume", "defines":
				c := &Clause{Kind: word, Src: src}
				c.Label, c.Text = splitLabel(rest)
				if word == "requires" {
					cur.Requires = append(cur.Requires, c)
				} else if word == "ensures" {
					cur.Ensures = append(cur.Ensures, c)
				} else if word == "defines" {
					c.Kind = "ensures"
					cur.Defines = append(cur.Defines, c)
				} else {
					c.Kind = "requires"
					c.Label = "ASSUME." + c.Label
					cur.Requires = append(cur.Requires, c)
				}
				lastClause = c
			case "loop":
				ns, r2 := splitWord(rest)
				n, err := strconv.Atoi(ns)
				if err != nil {
					cs.errs = append(cs.errs, src+": bad loop ordinal")
					continue
				}
				w2, r3 := splitWord(r2)
				switch w2 {
				case "invariant":
					c := &Clause{Kind: "invariant", Loop: n, Src: src}
					c.Label, c.Text = splitLabel(r3)
					cur.Invs = append(cur.Invs, c)
					lastClause = c
				case "freshwrites":
					for _, k := range strings.Split(r3, ",") {
						cur.LoopFresh[n] = append(cur.LoopFresh[n], strings.TrimSpace(k))
					}
				default:
					cs.errs = append(cs.errs, src+": unknown loop clause "+w2)
				}
			}
		default:
			cs.errs = append(cs.errs, src+": unknown directive "+word)
		}
	}
}

func splitWord(s string) (string, string) {
	s = strings.TrimSpace(s)
	i := strings.IndexAny(s, " \t")
	if i < 0 {
		return s, ""
	}
	return s[:i], strings.TrimSpace(s[i+1:])
}

func splitLabel(s string) (string, string) {
	s = strings.TrimSpace(s)
	if m := labelRe.FindStringSubmatch(s); m != nil {
		return m[1], strings.TrimSpace(s[len(m[0]):])
	}
	return "", s
}

// ---- rewriting the clause language into Go ----
//
//	a ==> b            implies(a, b)          (right associative, binds weaker than ||)
//	a <==> b           iff(a, b)              (weakest)
//	forall x T :: e    forall(func(x T) bool { return e })   (extends to the end of the enclosing group)
//	exists x T :: e    exists(func(x T) bool { return e })
//	old[T](e)          old(func() T { return e })
func rewriteClause(s string) (string, error) {
	s = strings.TrimSpace(s)
	// quantifier prefix
	for _, q := range []string{"forall", "exists"} {
		if strings.HasPrefix(s, q+" ") {
			i := topLevelIndex(s, "::")
			if i < 0 {
				return "", fmt.Errorf("quantifier without :: in %q", s)
			}
			binders := strings.TrimSpace(s[len(q):i])
			body, err := rewriteClause(s[i+2:])
			if err != nil {
				return "", err
			}
			return fmt.Sprintf("%s(func(%s) bool { return %s })", q, binders, body), nil
		}
	}
	if i := topLevelIndex(s, "<==>"); i >= 0 {
		a, err := rewriteClause(s[:i])
		if err != nil {
			return "", err
		}
		b, err := rewriteClause(s[i+4:])
		if err != nil {
			return "", err
		}
		return "iff(" + a + ", " + b + ")", nil
	}
	if i := topLevelIndex(s, "==>"); i >= 0 {
		a, err := rewriteClause(s[:i])
		if err != nil {
			return "", err
		}
		b, err := rewriteClause(s[i+3:])
		if err != nil {
			return "", err
		}
		return "implies(" + a + ", " + b + ")", nil
	}
	// split on top-level || and && only if a side contains special syntax
	if needsRewrite(s) {
		for _, op := range []string{"||", "&&"} {
			if i := topLevelIndex(s, op); i >= 0 {
				a, err := rewriteClause(s[:i])
				if err != nil {
					return "", err
				}
				b, err := rewriteClause(s[i+2:])
				if err != nil {
					return "", err
				}
				return "(" + a + ") " + op + " (" + b + ")", nil
			}
		}
	}
	// descend into bracket groups
	var out strings.Builder
	i := 0
	for i < len(s) {
		c := s[i]
		switch {
		case c == '"' || c == '`' || c == '\'':
			j := skipString(s, i)
			out.WriteString(s[i:j])
			i = j
		case c == '(' || c == '[' || c == '{':
			j := matchClose(s, i)
			if j < 0 {
				return "", fmt.Errorf("unbalanced %q", s)
			}
			inner := s[i+1 : j]
			// old[T](e)
			if c == '[' && strings.HasSuffix(strings.TrimRight(out.String(), " "), "old") && j+1 < len(s) && s[j+1] == '(' {
				k := matchClose(s, j+1)
				if k < 0 {
					return "", fmt.Errorf("unbalanced %q", s)
				}
				e, err := rewriteClause(s[j+2 : k])
				if err != nil {
					return "", err
				}
				out.WriteString(fmt.Sprintf("(func() %s { return %s })", inner, e))
				i = k + 1
				continue
			}
			parts := splitTopLevel(inner, ',')
			for pi, p := range parts {
				r, err := rewriteClause(p)
				if err != nil {
					return "", err
				}
				parts[pi] = r
			}
			out.WriteByte(c)
			out.WriteString(strings.Join(parts, ", "))
			out.WriteByte(s[j])
			i = j + 1
		default:
			out.WriteByte(c)
			i++
		}
	}
	return out.String(), nil
}

func needsRewrite(s string) bool {
	return strings.Contains(s, "==>") || strings.Contains(s, "forall ") || strings.Contains(s, "exists ") || strings.Contains(s, "::")
}

func skipString(s string, i int) int {
	q := s[i]
	j := i + 1
	for j < len(s) {
		if s[j] == '\\' && q != '`' {
			j += 2
			continue
		}
		if s[j] == q {
			return j + 1
		}
		j++
	}
	return len(s)
}

func matchClose(s string, i int) int {
	d := 0
	for j := i; j < len(s); j++ {
		switch s[j] {
		case '"', '`', '\'':
			j = skipString(s, j) - 1
		case '(', '[', '{':
			d++
		case ')', ']', '}':
			d--
			if d == 0 {
				return j
			}
		}
	}
	return -1
}

// topLevelIndex finds the first occurrence of op outside brackets and strings.
func topLevelIndex(s, op string) int {
	d := 0
	for j := 0; j < len(s); j++ {
		switch s[j] {
		case '"', '`', '\'':
			j = skipString(s, j) - 1
			continue
		case '(', '[', '{':
			d++
		case ')', ']', '}':
			d--
		}
		if d == 0 && strings.HasPrefix(s[j:], op) {
			if op == "==>" && j > 0 && s[j-1] == '<' {
				continue
			}
			return j
		}
	}
	return -1
}

func splitTopLevel(s string, sep byte) []string {
	var out []string
	d := 0
	last := 0
	for j := 0; j < len(s); j++ {
		switch s[j] {
		case '"', '`', '\'':
			j = skipString(s, j) - 1
			continue
		case '(', '[', '{':
			d++
		case ')', ']', '}':
			d--
		}
		if d == 0 && s[j] == sep {
			out = append(out, s[last:j])
			last = j + 1
		}
	}
	out = append(out, s[last:])
	return out
}

// ---- resolving the func line ----

// parseDecl parses "func (r T) name#2(params) (results)" and fills Key/Params/Results.
// qualify maps a receiver type expression to the FullName-style receiver string.
func (c *Contract) parseDecl(pkgPath string, imports map[string]string) error {
	d := c.Decl
	// closure ordinal
	re := regexp.MustCompile(`#(\d+)\(`)
	if m := re.FindStringSubmatch(d); m != nil {
		c.Closure, _ = strconv.Atoi(m[1])
		d = strings.Replace(d, "#"+m[1]+"(", "(", 1)
	}
	// free variable list for closures:  ... free(a T, b U)
	if i := strings.Index(d, " free("); i >= 0 {
		j := matchClose(d, i+5)
		fv := d[i+6 : j]
		d = d[:i] + d[j+1:]
		fd, err := parser.ParseExpr("func(" + fv + "){}")
		if err != nil {
			return fmt.Errorf("%s: free vars: %v", c.Src, err)
		}
		idx := 0
		for _, f := range fd.(*ast.FuncLit).Type.Params.List {
			for _, n := range f.Names {
				c.FreeVars = append(c.FreeVars, ArgDesc{Kind: "freevar", Idx: idx, Name: n.Name, Type: types.ExprString(f.Type)})
				idx++
			}
		}
	}
	fset := token.NewFileSet()
	f, err := parser.ParseFile(fset, "decl.go", "package p\n"+d+" {}", 0)
	if err != nil {
		return fmt.Errorf("%s: cannot parse %q: %v", c.Src, d, err)
	}
	fd, ok := f.Decls[0].(*ast.FuncDecl)
	if !ok {
		return fmt.Errorf("%s: not a func", c.Src)
	}
	qual := func(e ast.Expr) string {
		s := types.ExprString(e)
		ptr := strings.HasPrefix(s, "*")
		s = strings.TrimPrefix(s, "*")
		if i := strings.Index(s, "."); i >= 0 {
			alias := s[:i]
			if p, ok := imports[alias]; ok {
				s = p + s[i:]
			}
		} else {
			s = pkgPath + "." + s
		}
		if ptr {
			s = "*" + s
		}
		return s
	}
	name := fd.Name.Name
	if fd.Recv != nil && len(fd.Recv.List) == 1 {
		r := fd.Recv.List[0]
		c.Key = "(" + qual(r.Type) + ")." + name
		rn := "_recv"
		if len(r.Names) == 1 && r.Names[0].Name != "_" {
			rn = r.Names[0].Name
		}
		c.RecvName = rn
		c.Params = append(c.Params, ArgDesc{Kind: "recv", Name: rn, Type: types.ExprString(r.Type)})
	} else {
		if i := strings.LastIndex(name, "__"); i >= 0 && ext(name) {
			_ = i
		}
		c.Key = pkgPath + "." + name
	}
	idx := 0
	for _, p := range fd.Type.Params.List {
		ts := types.ExprString(p.Type)
		if el, ok := p.Type.(*ast.Ellipsis); ok {
			ts = "[]" + types.ExprString(el.Elt)
			c.Variadic = true
		}
		if len(p.Names) == 0 {
			c.Params = append(c.Params, ArgDesc{Kind: "param", Idx: idx, Name: fmt.Sprintf("_p%d", idx), Type: ts})
			idx++
		}
		for _, n := range p.Names {
			nm := n.Name
			if nm == "_" {
				nm = fmt.Sprintf("_p%d", idx)
			}
			c.Params = append(c.Params, ArgDesc{Kind: "param", Idx: idx, Name: nm, Type: ts})
			idx++
		}
	}
	if fd.Type.Results != nil {
		idx = 0
		for _, p := range fd.Type.Results.List {
			ts := types.ExprString(p.Type)
			if len(p.Names) == 0 {
				c.Results = append(c.Results, ArgDesc{Kind: "result", Idx: idx, Name: fmt.Sprintf("_r%d", idx), Type: ts})
				idx++
			}
			for _, n := range p.Names {
				c.Results = append(c.Results, ArgDesc{Kind: "result", Idx: idx, Name: n.Name, Type: ts})
				idx++
			}
		}
	}
	if c.Closure > 0 {
		c.Key = fmt.Sprintf("%s$%d", c.Key, c.Closure)
		// the receiver only names the parent; it is not a parameter of the closure
		if c.RecvName != "" {
			c.Params = c.Params[1:]
			c.RecvName = ""
		}
	}
	return nil
}

func ext(string) bool { return false }

// extFuncKey: for package-level functions of other packages the decl is written as
//
//	func pkgalias__Name(...)
//
// which maps to "path.Name".
func (c *Contract) fixExtKey(pkgPath string, imports map[string]string) {
	if !strings.HasPrefix(c.Key, pkgPath+".") {
		return
	}
	name := strings.TrimPrefix(c.Key, pkgPath+".")
	if i := strings.Index(name, "__"); i > 0 {
		alias := name[:i]
		if p, ok := imports[alias]; ok {
			c.Key = p + "." + name[i+2:]
		}
	}
}

func sortedContractKeys(m map[string]*Contract) []string {
	var ks []string
	for k := range m {
		ks = append(ks, k)
	}
	sort.Strings(ks)
	return ks
}

func (c *Contract) brokenClause() *Clause {
	for _, l := range [][]*Clause{c.Requires, c.Ensures, c.Invs, c.Defines} {
		for _, cl := range l {
			if cl.Broken != "" {
				return cl
			}
		}
	}
	return nil
}
