package main

import (
	"fmt"
	"go/token"
	"go/types"
	"sort"
	"strings"

	"golang.org/x/tools/go/ssa"
)

// WriteSet over-approximates the heap components a piece of code may modify.
type WriteSet struct {
	all  bool
	keys map[string]bool
	why  string
}

func newWS() *WriteSet { return &WriteSet{keys: map[string]bool{}} }

func (w *WriteSet) add(o *WriteSet) {
	if o.all && !w.all {
		w.all = true
		w.why = o.why
	}
	for k := range o.keys {
		w.keys[k] = true
	}
}

func (w *WriteSet) sortedKeys() []string {
	var ks []string
	for k := range w.keys {
		ks = append(ks, k)
	}
	sort.Strings(ks)
	return ks
}

func (x *Exec) compInfoOfKey(k string) compInfo {
	ci, ok := x.keyInfo[k]
	if !ok {
		panic("no component info for " + k)
	}
	return ci
}

// keysUnder registers and returns the component keys of all leaves of type t under a prefix.
func (x *Exec) keysUnder(kind string, root types.Type, path []int) []string {
	t := typeAtPath(root, path)
	prefix := pathString(root, path)
	var out []string
	for _, l := range x.leaves(t) {
		k := kind + "|" + typeKey(root) + "|" + prefix + l.Path
		if kind == "H" {
			x.keyInfo[k] = x.hInfo(l)
		} else {
			x.keyInfo[k] = x.eInfo(l)
		}
		out = append(out, k)
	}
	return out
}

func (x *Exec) mapKeys(t types.Type) []string {
	mt := t.Underlying().(*types.Map)
	ks := x.mapKeySort(mt)
	var out []string
	pk := "Mp|" + typeKey(mt)
	x.keyInfo[pk] = compInfo{sort: "(Array Int (Array " + ks + " Bool))"}
	ck := "Mc|" + typeKey(mt)
	x.keyInfo[ck] = compInfo{sort: "(Array Int " + x.sc.intSort() + ")"}
	out = append(out, pk, ck)
	for _, l := range x.leaves(mt.Elem()) {
		k := "Mv|" + typeKey(mt) + "|" + l.Path
		x.keyInfo[k] = x.mvInfo(ks, l)
		out = append(out, k)
	}
	return out
}

// storeTarget statically resolves the component written through addr.
func (x *Exec) storeTarget(addr ssa.Value) (kind string, root types.Type, path []int, local bool) {
	var rev []int
	v := addr
	for {
		switch a := v.(type) {
		case *ssa.FieldAddr:
			rev = append(rev, a.Field)
			v = a.X
			continue
		case *ssa.IndexAddr:
			switch a.X.Type().Underlying().(type) {
			case *types.Slice:
				kind, root = "E", x.sliceElem(a.X.Type())
			case *types.Pointer:
				at := a.X.Type().Underlying().(*types.Pointer).Elem().Underlying().(*types.Array)
				// pointer to a whole array object (E) or embedded array (path): decide by base
				if _, isAlloc := a.X.(*ssa.Alloc); isAlloc || true {
					if isWholeArrayPtr(a.X) {
						kind, root = "E", at.Elem()
					} else if c, ok := a.Index.(*ssa.Const); ok {
						rev = append(rev, int(c.Int64()))
						v = a.X
						continue
					} else {
						kind, root = "E", at.Elem()
					}
				}
			}
		case *ssa.Alloc:
			t := a.Type().(*types.Pointer).Elem()
			if _, isArr := t.Underlying().(*types.Array); isArr {
				kind, root = "E", t.Underlying().(*types.Array).Elem()
			} else if !a.Heap || x.P.allocLocal(a) {
				local = true
				kind, root = "H", t
			} else {
				kind, root = "H", t
			}
		default:
			pt, ok := v.Type().Underlying().(*types.Pointer)
			if !ok {
				panic(unsupported("store through %s", v.Type()))
			}
			kind, root = "H", pt.Elem()
		}
		break
	}
	for i := len(rev) - 1; i >= 0; i-- {
		path = append(path, rev[i])
	}
	return
}

func isWholeArrayPtr(v ssa.Value) bool {
	switch v.(type) {
	case *ssa.FieldAddr, *ssa.IndexAddr:
		return false
	}
	return true
}

func (x *Exec) instrWrites(ins ssa.Instruction, ws *WriteSet, visiting map[*ssa.Function]bool) {
	switch v := ins.(type) {
	case *ssa.Store:
		kind, root, path, local := x.storeTarget(v.Addr)
		if local {
			return
		}
		for _, k := range x.keysUnder(kind, root, path) {
			ws.keys[k] = true
		}
	case *ssa.MapUpdate:
		for _, k := range x.mapKeys(v.Map.Type()) {
			ws.keys[k] = true
		}
	case *ssa.Alloc:
		t := v.Type().(*types.Pointer).Elem()
		if at, ok := t.Underlying().(*types.Array); ok {
			for _, k := range x.keysUnder("E", at.Elem(), nil) {
				ws.keys[k] = true
			}
		} else if v.Heap && !x.P.allocLocal(v) {
			if _, isFunc := t.Underlying().(*types.Signature); isFunc && funcCellOnly(v) {
				return
			}
			for _, k := range x.keysUnder("H", t, nil) {
				ws.keys[k] = true
			}
		}
	case *ssa.MakeSlice:
		for _, k := range x.keysUnder("E", v.Type().Underlying().(*types.Slice).Elem(), nil) {
			ws.keys[k] = true
		}
	case *ssa.MakeMap:
		for _, k := range x.mapKeys(v.Type()) {
			ws.keys[k] = true
		}
	case *ssa.MakeInterface:
		// boxing may allocate an object of the concrete type
		if _, isPtr := v.X.Type().Underlying().(*types.Pointer); !isPtr {
			if _, isIface := v.X.Type().Underlying().(*types.Interface); !isIface {
				for _, k := range x.keysUnder("H", v.X.Type(), nil) {
					ws.keys[k] = true
				}
			}
		}
	case *ssa.Call:
		x.callWrites(&v.Call, ws, visiting)
	case *ssa.Defer:
		x.callWrites(&v.Call, ws, visiting)
	case *ssa.Send, *ssa.Select:
		nk, ek := x.logKeys("send")
		ws.keys[nk], ws.keys[ek] = true, true
	case *ssa.UnOp:
		if v.Op == token.ARROW {
			nk, ek := x.logKeys("recv")
			ws.keys[nk], ws.keys[ek] = true, true
		}
	case *ssa.Go:
		// asynchronous: dropped (documented)
	}
}

func (x *Exec) callWrites(c *ssa.CallCommon, ws *WriteSet, visiting map[*ssa.Function]bool) {
	// an interior pointer handed to a callee: everything below it may be written, in the caller's
	// view of the heap (the enclosing object), whatever the callee's own view is
	for _, a := range c.Args {
		if _, isPtr := a.Type().Underlying().(*types.Pointer); !isPtr {
			continue
		}
		switch a.(type) {
		case *ssa.FieldAddr, *ssa.IndexAddr:
			func() {
				defer func() { recover() }()
				kind, root, path, local := x.storeTarget(a)
				if local {
					return
				}
				if _, isOpaque := opaqueSort(typeAtPath(root, path)); isOpaque {
					return
				}
				for _, k := range x.keysUnder(kind, root, path) {
					ws.keys[k] = true
				}
			}()
		}
	}
	x.callWrites0(c, ws, visiting)
}

func (x *Exec) callWrites0(c *ssa.CallCommon, ws *WriteSet, visiting map[*ssa.Function]bool) {
	if c.IsInvoke() {
		key := c.Method.FullName()
		if ctr := x.P.cs.byKey[key]; ctr != nil {
			x.contractWrites(ctr, nil, ws, visiting)
			return
		}
		if e, ok := modelEffects[key]; ok {
			x.addEffectSpec(e, ws)
			return
		}
		if x.gsModelWrites(key, ws) {
			return
		}
		if models[key] != nil {
			return
		}
		if impl := x.P.uniqueImpl(c.Value.Type()); impl != nil {
			if m := x.P.prog.LookupMethod(impl, c.Method.Pkg(), c.Method.Name()); m != nil {
				ws.add(x.effectsRec(m, visiting))
				return
			}
		}
		ws.all = true
		ws.why = "invoke " + key
		return
	}
	var fn *ssa.Function
	switch callee := c.Value.(type) {
	case *ssa.Builtin:
		switch callee.Name() {
		case "append":
			for _, k := range x.keysUnder("E", x.sliceElem(c.Args[0].Type()), nil) {
				ws.keys[k] = true
			}
		case "copy":
			for _, k := range x.keysUnder("E", x.sliceElem(c.Args[0].Type()), nil) {
				ws.keys[k] = true
			}
		case "delete", "clear":
			if _, isMap := c.Args[0].Type().Underlying().(*types.Map); isMap {
				for _, k := range x.mapKeys(c.Args[0].Type()) {
					ws.keys[k] = true
				}
			}
		case "close":
			x.keyInfo["G|chanclosed"] = compInfo{sort: "(Array Int Bool)"}
			ws.keys["G|chanclosed"] = true
		}
		return
	case *ssa.Function:
		fn = callee
	case *ssa.MakeClosure:
		fn = callee.Fn.(*ssa.Function)
	default:
		fn = x.P.resolveFuncValue(c.Value)
	}
	if fn == nil {
		if x.harmlessFuncValue(c.Value) || isCancelFunc(c.Value.Type()) {
			return
		}
		ws.all = true
		ws.why = "dynamic call " + c.Value.Name()
		return
	}
	if fnKey(fn) == "(*sync.Once).Do" && len(c.Args) == 2 {
		// the done bit of the Once, and whatever the function does
		func() {
			defer func() { recover() }()
			_, root, path, local := x.storeTarget(c.Args[0])
			if !local {
				k := "O|" + typeKey(root) + "|" + pathString(root, path)
				x.keyInfo[k] = compInfo{sort: "(Array Int Bool)"}
				ws.keys[k] = true
			}
		}()
		var f *ssa.Function
		switch a := c.Args[1].(type) {
		case *ssa.MakeClosure:
			f = a.Fn.(*ssa.Function)
		case *ssa.Function:
			f = a
		default:
			f = x.P.resolveFuncValue(a)
		}
		if f == nil {
			ws.all = true
			ws.why = "sync.Once.Do of an unknown function"
			return
		}
		ws.add(x.effectsRec(f, visiting))
		return
	}
	if fnKey(fn) == "encoding/json.Unmarshal" && len(c.Args) == 2 {
		// writes the pointee (statically typed through the MakeInterface) and its ghost snapshots
		if mi, ok := c.Args[1].(*ssa.MakeInterface); ok {
			if pt, ok := mi.X.Type().Underlying().(*types.Pointer); ok {
				for _, k := range x.keysUnder("H", pt.Elem(), nil) {
					ws.keys[k] = true
				}
				nk, ek := x.logKeys("unmarshal")
				ws.keys[nk], ws.keys[ek] = true, true
				return
			}
		}
		ws.all = true
		ws.why = "json.Unmarshal into a statically unknown target"
		return
	}
	if fnKey(fn) == "google.golang.org/protobuf/types/known/anypb.New" && len(c.Args) == 1 {
		x.addEffectSpec([]string{"ghost.marshalfail"}, ws)
		// the model snapshots the message struct into a fresh object of the same type
		if mi, ok := c.Args[0].(*ssa.MakeInterface); ok {
			if pt, ok := mi.X.Type().Underlying().(*types.Pointer); ok {
				for _, k := range x.keysUnder("H", pt.Elem(), nil) {
					ws.keys[k] = true
				}
			}
		}
		return
	}
	if k := fnKey(fn); k == "(*sync.Map).Store" || k == "(*sync.Map).Delete" || k == "(*sync.Map).LoadOrStore" || k == "(*sync.Map).LoadAndDelete" {
		_, root, path, local := x.storeTarget(c.Args[0])
		if !local {
			for _, str := range []bool{false, true} {
				pk, tk, rk, _ := x.smKeys(root, path, str)
				ws.keys[pk], ws.keys[tk], ws.keys[rk] = true, true, true
			}
			// stored values are boxed: their types' object components may be written too
			if len(c.Args) == 3 {
				if mi, ok := c.Args[2].(*ssa.MakeInterface); ok {
					if _, isPtr := mi.X.Type().Underlying().(*types.Pointer); !isPtr {
						for _, kk := range x.keysUnder("H", mi.X.Type(), nil) {
							ws.keys[kk] = true
						}
					}
				}
			}
		}
		return
	}
	// lock operations write the lock-set component of their (statically known) mutex
	if k := fnKey(fn); strings.HasPrefix(k, "(*sync.Mutex).") || strings.HasPrefix(k, "(*sync.RWMutex).") {
		if len(c.Args) == 1 {
			if pt, ok := c.Args[0].Type().Underlying().(*types.Pointer); ok {
				_ = pt
				_, root, path, local := x.storeTarget(c.Args[0])
				if !local {
					for _, pre := range []string{"L|", "R|"} {
						lk := pre + typeKey(root) + "|" + pathString(root, path)
						x.keyInfo[lk] = compInfo{sort: "(Array Int Bool)"}
						ws.keys[lk] = true
					}
				}
			}
		}
		return
	}
	ws.add(x.effectsRec(fn, visiting))
}

func (x *Exec) contractWrites(ctr *Contract, fn *ssa.Function, ws *WriteSet, visiting map[*ssa.Function]bool) {
	for _, lg := range ctr.Appends {
		nk, ek := x.logKeys(lg)
		ws.keys[nk], ws.keys[ek] = true, true
	}
	switch {
	case ctr.Pure && len(ctr.Fresh) == 0:
	case ctr.ModAll:
		ws.all = true
		ws.why = "modifies * of " + ctr.Key
	case len(ctr.Modifies) > 0 || ctr.Trusted || fn == nil || len(fn.Blocks) == 0 || ctr.Ext:
		for _, m := range ctr.Fresh {
			for _, k := range x.modifiesKeys(m) {
				ws.keys[k] = true
			}
		}
		for _, m := range ctr.Modifies {
			for _, k := range x.modifiesKeys(m) {
				ws.keys[k] = true
			}
		}
	default:
		ws.add(x.bodyWrites(fn, visiting))
	}
}

// effects: components fn may write (through its whole call tree).
func (x *Exec) effects(fn *ssa.Function) *WriteSet {
	return x.effectsRec(fn, map[*ssa.Function]bool{})
}

func (x *Exec) effectsRec(fn *ssa.Function, visiting map[*ssa.Function]bool) *WriteSet {
	if ws, ok := x.effCache[fn]; ok {
		return ws
	}
	key := fnKey(fn)
	if x.isGhostBuiltin(fn) || (rootFn(fn).Pkg == x.P.spkg && x.P.ghost[fn.Name()]) {
		return newWS()
	}
	ws := newWS()
	if ctr := x.P.cs.byKey[key]; ctr != nil && !ctr.Inline {
		x.contractWrites(ctr, fn, ws, visiting)
		x.effCache[fn] = ws
		return ws
	}
	if e, ok := modelEffects[key]; ok {
		x.addEffectSpec(e, ws)
		x.effCache[fn] = ws
		return ws
	}
	if x.gsModelWrites(key, ws) {
		x.effCache[fn] = ws
		return ws
	}
	if models[key] != nil || modelByPrefix(key) != nil {
		x.effCache[fn] = ws
		return ws
	}
	if len(fn.Blocks) == 0 || !x.inModule(fn) {
		if keys, ok := x.argReachKeys(fn.Signature); ok {
			for _, k := range keys {
				ws.keys[k] = true
			}
			x.effCache[fn] = ws
			return ws
		}
		ws.all = true
		ws.why = "unmodelled " + key
		x.effCache[fn] = ws
		return ws
	}
	if visiting[fn] {
		return ws // recursion: partial result, completed by the outer call
	}
	ws = x.bodyWrites(fn, visiting)
	x.effCache[fn] = ws
	return ws
}

func (x *Exec) bodyWrites(fn *ssa.Function, visiting map[*ssa.Function]bool) *WriteSet {
	visiting[fn] = true
	defer delete(visiting, fn)
	ws := newWS()
	for _, b := range fn.Blocks {
		if fn.Recover != nil && b == fn.Recover {
			continue
		}
		for _, ins := range b.Instrs {
			x.instrWrites(ins, ws, visiting)
		}
	}
	return ws
}

func (x *Exec) loopWrites(fn *ssa.Function, li *loopInfo) *WriteSet {
	ws := newWS()
	for _, b := range fn.Blocks {
		if !li.body[b] {
			continue
		}
		for _, ins := range b.Instrs {
			x.instrWrites(ins, ws, map[*ssa.Function]bool{fn: true})
		}
	}
	return ws
}

// addEffectSpec: "E:uint8" (element arrays of a basic type), "ghost.NAME", "*".
func (x *Exec) addEffectSpec(specs []string, ws *WriteSet) {
	for _, s := range specs {
		for _, k := range x.modifiesKeys(s) {
			ws.keys[k] = true
		}
		if s == "*" {
			ws.all = true
			ws.why = "model effect *"
		}
	}
}

// modifiesKeys expands a modifies item into component keys.
//
//	ghost.NAME         ghost integer
//	E:<basic type>     element arrays of that basic type (e.g. E:uint8)
//	T.field            field of in-package struct type T (all leaves below)
//	elem T.field       the same field inside slice elements of type T
//	map T.field        the map object(s) stored in that field (by map type)
func (x *Exec) modifiesKeys(m string) []string {
	m = strings.TrimSpace(m)
	switch {
	case m == "*":
		return nil
	case strings.HasPrefix(m, "ghostset."):
		hk, ck, tk := x.gsKeys3(strings.TrimPrefix(m, "ghostset."))
		return []string{hk, ck, tk}
	case strings.HasPrefix(m, "ghostlog."):
		nk, ek := x.logKeys(strings.TrimPrefix(m, "ghostlog."))
		return []string{nk, ek}
	case strings.HasPrefix(m, "ghostbv."):
		k := "G|" + strings.TrimPrefix(m, "ghostbv.")
		x.keyInfo[k] = compInfo{sort: bvSort(64)}
		return []string{k}
	case strings.HasPrefix(m, "ghost."):
		k := "G|" + strings.TrimPrefix(m, "ghost.")
		x.keyInfo[k] = compInfo{sort: "Int"}
		return []string{k}
	case m == "ghostarr.serlen":
		k := "G|serlen"
		x.keyInfo[k] = compInfo{sort: "(Array Int " + x.sc.intSort() + ")"}
		return []string{k}
	case strings.HasPrefix(m, "ghostarr."):
		k := "G|" + strings.TrimPrefix(m, "ghostarr.")
		x.keyInfo[k] = compInfo{sort: "(Array Int Bool)"}
		return []string{k}
	case strings.HasPrefix(m, "E:"):
		tn := strings.TrimPrefix(m, "E:")
		for _, bt := range types.Typ {
			if bt.Name() == tn {
				return x.keysUnder("E", bt, nil)
			}
		}
		if t := x.lookupType(tn); t != nil {
			return x.keysUnder("E", t, nil)
		}
		if strings.HasPrefix(tn, "*") {
			if t := x.lookupType(strings.TrimPrefix(tn, "*")); t != nil {
				return x.keysUnder("E", types.NewPointer(t), nil)
			}
		}
		panic(unsupported("modifies: unknown element type %s", tn))
	}
	kind := "H"
	isMap := false
	if strings.HasPrefix(m, "elem ") {
		kind = "E"
		m = strings.TrimSpace(strings.TrimPrefix(m, "elem "))
	}
	if strings.HasPrefix(m, "map ") {
		isMap = true
		m = strings.TrimSpace(strings.TrimPrefix(m, "map "))
	}
	if strings.HasPrefix(m, "lock ") {
		m = strings.TrimSpace(strings.TrimPrefix(m, "lock "))
		parts := strings.Split(m, ".")
		t := x.lookupType(parts[0])
		if t == nil {
			panic(unsupported("modifies: unknown type %s", parts[0]))
		}
		path := x.fieldPath(t, parts[1:])
		k := "L|" + typeKey(t) + "|" + pathString(t, path)
		x.keyInfo[k] = compInfo{sort: "(Array Int Bool)"}
		return []string{k}
	}
	parts := strings.Split(m, ".")
	var t types.Type
	if _, isAlias := x.P.cs.imports[parts[0]]; isAlias && len(parts) >= 2 && x.P.tpkg.Scope().Lookup(parts[0]) == nil {
		t = x.lookupType(parts[0] + "." + parts[1])
		parts = parts[1:]
	} else {
		t = x.lookupType(parts[0])
	}
	if t == nil {
		panic(unsupported("modifies: unknown type %s", m))
	}
	path := x.fieldPath(t, parts[1:])
	if isMap {
		return x.mapKeys(typeAtPath(t, path))
	}
	return x.keysUnder(kind, t, path)
}

func (x *Exec) fieldPath(t types.Type, names []string) []int {
	var path []int
	cur := t
	for _, n := range names {
		st, ok := cur.Underlying().(*types.Struct)
		if !ok {
			panic(unsupported("modifies: %s is not a struct", cur))
		}
		found := false
		for i := 0; i < st.NumFields(); i++ {
			if st.Field(i).Name() == n {
				path = append(path, i)
				cur = st.Field(i).Type()
				found = true
				break
			}
		}
		if !found {
			panic(unsupported("modifies: no field %s in %s", n, cur))
		}
	}
	return path
}

func (x *Exec) lookupType(name string) types.Type {
	if i := strings.LastIndex(name, "/"); i >= 0 || strings.Contains(name, ".") {
		// qualified: alias.Name
		j := strings.LastIndex(name, ".")
		alias, tn := name[:j], name[j+1:]
		path := alias
		if p, ok := x.P.cs.imports[alias]; ok {
			path = p
		}
		if tp, ok := x.P.imports[path]; ok {
			if o := tp.Scope().Lookup(tn); o != nil {
				return o.Type()
			}
		}
		return nil
	}
	if o := x.P.tpkg.Scope().Lookup(name); o != nil {
		if tn, ok := o.(*types.TypeName); ok {
			return tn.Type()
		}
	}
	return nil
}

// ---- static helpers on the program ----

// allocLocal: a heap-flagged Alloc that we can still keep as a generator-side cell. Currently only
// variables captured by closures that are called directly (never stored or passed on).
func (P *Program) allocLocal(a *ssa.Alloc) bool {
	if !a.Heap {
		return true
	}
	t := a.Type().(*types.Pointer).Elem()
	if _, isArr := t.Underlying().(*types.Array); isArr {
		return false
	}
	return P.ptrStaysLocal(a, map[ssa.Value]bool{})
}

func (P *Program) ptrStaysLocal(p ssa.Value, seen map[ssa.Value]bool) bool {
	if seen[p] {
		return true
	}
	seen[p] = true
	refs := p.Referrers()
	if refs == nil {
		return false
	}
	for _, r := range *refs {
		switch u := r.(type) {
		case *ssa.Store:
			if u.Val == p {
				return false
			}
		case *ssa.UnOp, *ssa.DebugRef:
		case *ssa.FieldAddr:
			if !P.ptrStaysLocal(u, seen) {
				return false
			}
		case *ssa.IndexAddr:
			if !P.ptrStaysLocal(u, seen) {
				return false
			}
		case *ssa.MakeClosure:
			// the closure must only be called (or deferred), and inside it the free variable must stay local
			fn := u.Fn.(*ssa.Function)
			if !closureOnlyCalled(u) {
				return false
			}
			for i, b := range u.Bindings {
				if b == p {
					if !P.ptrStaysLocal(fn.FreeVars[i], seen) {
						return false
					}
				}
			}
		default:
			return false
		}
	}
	return true
}

func closureOnlyCalled(mc *ssa.MakeClosure) bool {
	for _, r := range *mc.Referrers() {
		switch u := r.(type) {
		case *ssa.Call:
			if u.Call.Value != ssa.Value(mc) {
				// passed to a ghost built-in (forall / exists / old): evaluated in place
				if sc := u.Call.StaticCallee(); sc != nil && ghostBuiltins[originName(sc)] && strings.HasSuffix(sc.Prog.Fset.Position(sc.Pos()).Filename, "_verif.go") {
					continue
				}
				return false
			}
		case *ssa.Defer:
			if u.Call.Value != ssa.Value(mc) {
				return false
			}
		case *ssa.DebugRef:
		default:
			return false
		}
	}
	return true
}

// resolveFuncValue: a func-typed value that always denotes the same function:
//   - load from a cell (Alloc or FreeVar bound to one) whose every store writes the same function
//   - load from a package-level variable assigned once in its declaration (e.g. intEnc)
func (P *Program) resolveFuncValue(v ssa.Value) *ssa.Function {
	switch u := v.(type) {
	case *ssa.Function:
		return u
	case *ssa.MakeClosure:
		return u.Fn.(*ssa.Function)
	case *ssa.UnOp:
		return P.resolveFuncCell(u.X)
	}
	return nil
}

func (P *Program) resolveFuncCell(addr ssa.Value) *ssa.Function {
	switch a := addr.(type) {
	case *ssa.Alloc:
		var fn *ssa.Function
		for _, r := range *a.Referrers() {
			if s, ok := r.(*ssa.Store); ok && s.Addr == ssa.Value(a) {
				f := P.resolveFuncValue(s.Val)
				if f == nil || (fn != nil && fn != f) {
					return nil
				}
				fn = f
			}
		}
		return fn
	case *ssa.FreeVar:
		// find the binding in the parent
		cl := a.Parent()
		idx := -1
		for i, fv := range cl.FreeVars {
			if fv == a {
				idx = i
			}
		}
		par := cl.Parent()
		if par == nil || idx < 0 {
			return nil
		}
		var fn *ssa.Function
		for _, b := range par.Blocks {
			for _, ins := range b.Instrs {
				if mc, ok := ins.(*ssa.MakeClosure); ok && mc.Fn == ssa.Value(cl) {
					f := P.resolveFuncCell(mc.Bindings[idx])
					if f == nil || (fn != nil && fn != f) {
						return nil
					}
					fn = f
				}
			}
		}
		return fn
	case *ssa.Global:
		return P.globalFunc(a)
	}
	return nil
}

func (P *Program) globalStores(g *ssa.Global) []*ssa.Store {
	var out []*ssa.Store
	for _, fn := range P.allFns {
		for _, b := range fn.Blocks {
			for _, ins := range b.Instrs {
				if s, ok := ins.(*ssa.Store); ok && s.Addr == ssa.Value(g) {
					out = append(out, s)
				}
			}
		}
	}
	return out
}

func (P *Program) globalFunc(g *ssa.Global) *ssa.Function {
	if g.Pkg != P.spkg {
		return nil
	}
	stores := P.globalStores(g)
	if len(stores) != 1 || stores[0].Parent().Name() != "init" {
		return nil
	}
	return P.resolveFuncValue(stores[0].Val)
}

// constGlobal: package-level variables of interface/pointer type that are assigned exactly once, in
// the package initializer (errors.New sentinels): every load yields the same non-nil value.
func (x *Exec) constGlobal(g *ssa.Global, st *State) *Val {
	elem := g.Type().(*types.Pointer).Elem()
	_, isIface := elem.Underlying().(*types.Interface)
	_, isSig := elem.Underlying().(*types.Signature)
	if isSig {
		if fn := x.P.globalFunc(g); fn != nil {
			return &Val{K: KFunc, T: elem, Fn: &FuncVal{Fn: fn}}
		}
		return nil
	}
	if !isIface {
		return nil
	}
	if g.Pkg == x.P.spkg {
		stores := x.P.globalStores(g)
		if len(stores) != 1 || stores[0].Parent().Name() != "init" {
			return nil
		}
		// only sentinel errors created by errors.New / fmt.Errorf
		c, ok := stores[0].Val.(*ssa.Call)
		if !ok || c.Call.StaticCallee() == nil {
			return nil
		}
		n := c.Call.StaticCallee().String()
		if n != "errors.New" && n != "fmt.Errorf" {
			return nil
		}
	} else if !x.P.cs.consts[g.Pkg.Pkg.Path()+"."+g.Name()] {
		return nil
	}
	id, ok := x.globalRefs[g]
	if !ok {
		id = len(x.globalRefs) + 1
		x.globalRefs[g] = id
	}
	// tag of *errors.errorString stands for "some error type"; the reference is unique per variable
	return &Val{K: KIface, T: elem, E: []*Val{scalar(nil, x.tagOf(types.NewPointer(types.Typ[types.String])), "Int"), scalar(nil, fmt.Sprint(50000+id), "Int")}}
}

// ---- lock discipline ----

func (x *Exec) checkGuard(st *State, p *Ptr, write bool) {
	if x.spec > 0 || len(p.Path) == 0 || len(x.P.cs.guarded) == 0 {
		return
	}
	n, ok := p.Root.(*types.Named)
	if !ok {
		return
	}
	stt, ok := n.Underlying().(*types.Struct)
	if !ok {
		return
	}
	fname := n.Obj().Name() + "." + stt.Field(p.Path[0]).Name()
	for _, g := range x.P.cs.guarded {
		for _, gf := range g.Fields {
			if gf != fname {
				continue
			}
			lp := strings.Split(g.Lock, ".")
			path := x.fieldPath(p.Root, lp[1:])
			lk := x.lockComp(st, &Ptr{Kind: PHeap, Ref: p.Ref, Root: p.Root, Path: path})
			what := "read"
			if write {
				what = "write"
			}
			x.oblige(st, "guard", "", what+" of "+fname+" without "+g.Lock, or(sel(x.use(lk), p.Ref), "(> "+p.Ref+" "+x.top0+")"), x.curPos)
		}
	}
}

// ---- fresh-only writes ----
//
// `freshwrites <components>` (function level) and `loop n freshwrites <components>` declare that the
// listed components are written only inside objects allocated after the function was entered.
// Every write to such a component gets the obligation ref > top0; in exchange, wherever the
// component is forgotten (loop havoc here, call havoc at callers) objects that existed before keep
// their contents.

func (x *Exec) freshCheck(st *State, key string, ref string, pos token.Pos) {
	if x.spec > 0 || x.isFreshRef(ref) {
		return
	}
	if x.freshActive(key) {
		x.oblige(st, "frame", "", "write to "+compShort(key)+" of an object that existed before the call", "(> "+ref+" "+x.top0+")", pos)
	} else if ar, ok := x.rootArgW[key]; ok {
		x.oblige(st, "frame", "", "write to "+compShort(key)+" of an existing object other than the declared argument (writesarg)", or(eq(ref, ar), "(> "+ref+" "+x.top0+")"), pos)
	}
}

// argWriteKeys: component key -> reference of the argument object, for a contract's writesarg
// declarations evaluated on the given argument values (receiver first).
func (x *Exec) argWriteKeys(ctr *Contract, args []*Val) map[string]string {
	out := map[string]string{}
	if ctr == nil {
		return out
	}
	for _, aw := range ctr.ArgWrites {
		ref := ""
		for i, pd := range ctr.Params {
			if pd.Name == aw.Param && i < len(args) && args[i] != nil && args[i].K == KPtr && args[i].P != nil && args[i].P.Kind == PHeap && len(args[i].P.Path) == 0 {
				ref = args[i].P.Ref
			}
		}
		if ref == "" {
			panic(unsupported("writesarg %s: not a pointer parameter of %s", aw.Param, ctr.Key))
		}
		for k := range x.expandKeys(aw.Items) {
			out[k] = ref
		}
	}
	return out
}

func compShort(key string) string {
	parts := strings.Split(key, "|")
	if len(parts) == 3 {
		t := parts[1]
		if i := strings.LastIndex(t, "."); i >= 0 {
			t = t[i+1:]
		}
		return parts[0] + ":" + t + parts[2]
	}
	return key
}

func (x *Exec) freshActive(key string) bool {
	if x.rootFresh[key] {
		return true
	}
	for li, m := range x.loopFresh {
		if m[key] && x.curBlock != nil && li.body[x.curBlock] {
			return true
		}
	}
	return false
}

// frameOld: objects with reference <= top keep their contents between components before and after.
func (x *Exec) frameOld(before, after *HeapSym, top string) {
	x.sc.emit("(assert (forall ((r Int)) (! (=> (<= r %s) (= (select %s r) (select %s r))) :pattern ((select %s r)))))", top, x.use(after), x.use(before), x.use(after))
}

func (x *Exec) expandKeys(items []string) map[string]bool {
	out := map[string]bool{}
	for _, it := range items {
		for _, k := range x.modifiesKeys(it) {
			out[k] = true
		}
	}
	return out
}

// harmlessFuncValue: cancel functions returned by context.With* (extracted from the call result).
func (x *Exec) harmlessFuncValue(v ssa.Value) bool {
	if u, ok := v.(*ssa.UnOp); ok {
		// loaded from a cell that only ever holds such a value
		if a, ok := u.X.(*ssa.Alloc); ok {
			okAll := true
			n := 0
			for _, r := range *a.Referrers() {
				if s, ok := r.(*ssa.Store); ok && s.Addr == ssa.Value(a) {
					n++
					if !x.harmlessFuncValue(s.Val) {
						okAll = false
					}
				}
			}
			return okAll && n > 0
		}
		return false
	}
	ex, ok := v.(*ssa.Extract)
	if !ok {
		return false
	}
	call, ok := ex.Tuple.(*ssa.Call)
	if !ok || call.Call.StaticCallee() == nil {
		return false
	}
	switch call.Call.StaticCallee().String() {
	case "context.WithTimeout", "context.WithCancel", "context.WithDeadline":
		return ex.Index == 1
	}
	return false
}

// uniqueImpl: the single named type (T or *T) declared in the package's production files that
// implements interface type t, or nil.
func (P *Program) uniqueImpl(t types.Type) types.Type {
	it, ok := t.Underlying().(*types.Interface)
	if !ok || it.NumMethods() == 0 {
		return nil
	}
	P.implMu.Lock()
	defer P.implMu.Unlock()
	if r, ok := P.implCache[t.String()]; ok {
		return r
	}
	var found types.Type
	n := 0
	sc := P.tpkg.Scope()
	for _, name := range sc.Names() {
		tn, ok := sc.Lookup(name).(*types.TypeName)
		if !ok || tn.IsAlias() {
			continue
		}
		file := P.fset.Position(tn.Pos()).Filename
		if strings.HasSuffix(file, "_test.go") || strings.HasSuffix(file, "_verif.go") {
			continue
		}
		if _, isIface := tn.Type().Underlying().(*types.Interface); isIface {
			continue
		}
		for _, cand := range []types.Type{tn.Type(), types.NewPointer(tn.Type())} {
			if types.Implements(cand, it) {
				found = cand
				n++
				break
			}
		}
	}
	if n != 1 {
		found = nil
	}
	if P.implCache == nil {
		P.implCache = map[string]types.Type{}
	}
	P.implCache[t.String()] = found
	return found
}
