package main

import (
	"fmt"
	"go/constant"
	"go/token"
	"go/types"
	"math/big"
	"sort"
	"strings"

	"golang.org/x/tools/go/ssa"
)

var thoroughTier bool

type Obligation struct {
	Name  string
	Kind  string
	Label string
	Func  string
	Pos   int    // script cut
	Goal  string // closed formula to prove (already includes the path condition)
	Src   string
	// filled by the solver stage
	Status     string
	Solver     string
	Secs       float64
	Model      string
	Dead       bool
	Except     string  // known finding: Bool term describing the recorded failing inputs
	Clause     *Clause // post obligations: the ensures clause
	Cross      int     // thorough tier: solvers the proved query was cross-checked with
	CrossAgree int     // ... of which answered unsat as well (the others ran out of time)
	Stage      int     // solving stage that decided the obligation (1, 2: sliced; 3: full abstract; 4: full exact)
}

// Exec is the verification-condition generator state for one function under verification.
type Exec struct {
	P            *Program
	sc           *Script
	leafCache    map[string][]Leaf
	funcIDs      map[*ssa.Function]string
	base         map[string]*HeapSym
	baseOrder    []string
	top0         string
	needFresh    bool
	pendingFresh []*HeapSym
	writeLog     map[string]bool
	inBinder     int
	spec         int // >0: evaluating specification code: no obligations
	obls         []*Obligation
	oblCount     map[string]int
	root         *ssa.Function
	rootCtr      *Contract
	logicals     map[string]*Val
	postClause   *Clause
	cellN        int
	cur          *State
	oldState     *State
	depth        int
	stack        []*ssa.Function
	warnings     []string
	tags         map[string]int
	globalRefs   map[*ssa.Global]int
	usedContract map[string]bool
	usedModels   map[string]bool
	inlined      map[string]bool
	assumed      []string
	binderVars   []string
	covers       []*Obligation
	gens         int
	genTop       map[int]string
	genMerges    map[int]genMerge
	keyInfo      map[string]compInfo
	deferN       int
	blocking     []string
	effCache     map[*ssa.Function]*WriteSet
	effBusy      map[*ssa.Function]bool
	curPos       token.Pos
	prevTop      string
	kfExcept     map[string]string
	loopStatic   map[*loopInfo]map[string]bool
	interiorArgs bool
	allocBase    string // when set: the allocation top that allocated() compares against (call sites)
	guards       []string
	nret         int
	clauseFn     *ssa.Function // function whose contract clauses are being instantiated (free variables by name)
	curBlock     *ssa.BasicBlock
	rootFresh    map[string]bool
	rootArgW     map[string]string // component key -> reference of the only pre-existing object the root function may write it in (writesarg)
	loopFresh    map[*loopInfo]map[string]bool
	bvArith      bool
	natDone      map[string]bool
	natTerms     map[int][][2]string
}

func newExec(P *Program, bv bool) *Exec {
	x := &Exec{P: P, sc: newScript(bv), leafCache: map[string][]Leaf{}, funcIDs: map[*ssa.Function]string{}, base: map[string]*HeapSym{},
		oblCount: map[string]int{}, logicals: map[string]*Val{}, tags: map[string]int{}, globalRefs: map[*ssa.Global]int{},
		usedContract: map[string]bool{}, usedModels: map[string]bool{}, inlined: map[string]bool{},
		genTop: map[int]string{}, genMerges: map[int]genMerge{}, keyInfo: map[string]compInfo{}, effCache: map[*ssa.Function]*WriteSet{}, effBusy: map[*ssa.Function]bool{},
		natDone: map[string]bool{}, natTerms: map[int][][2]string{}, loopStatic: map[*loopInfo]map[string]bool{}, kfExcept: map[string]string{}, rootFresh: map[string]bool{}, rootArgW: map[string]string{}, loopFresh: map[*loopInfo]map[string]bool{}}
	return x
}

func (x *Exec) warn(format string, a ...interface{}) {
	w := fmt.Sprintf(format, a...)
	for _, o := range x.warnings {
		if o == w {
			return
		}
	}
	x.warnings = append(x.warnings, w)
}

func (x *Exec) srcPos(p token.Pos) string {
	if !p.IsValid() {
		return ""
	}
	pp := x.P.fset.Position(p)
	return fmt.Sprintf("%s:%d", shortFile(pp.Filename), pp.Line)
}

func shortFile(f string) string {
	if i := strings.LastIndex(f, "/"); i >= 0 {
		return f[i+1:]
	}
	return f
}

// oblige records a proof obligation: under st.pc, goal must hold.
func (x *Exec) oblige(st *State, kind, label, what string, goal string, pos token.Pos) {
	if x.spec > 0 {
		return
	}
	if x.rootCtr != nil {
		for _, k := range x.rootCtr.Unchecked {
			if k == kind {
				return
			}
		}
	}
	if goal == "true" || st.pc == "false" {
		return
	}
	if strings.HasSuffix(label, "@thorough") && !thoroughTier {
		return // expensive obligation: generated in the thorough tier only
	}
	fn := "?"
	if len(x.stack) > 0 {
		fn = fnKey(x.stack[len(x.stack)-1])
	}
	base := fmt.Sprintf("%s/%s/%s", shortKey(x.P, fnKey(x.root)), kind, what)
	if fn != fnKey(x.root) {
		base = fmt.Sprintf("%s/%s/%s@%s", shortKey(x.P, fnKey(x.root)), kind, what, shortKey(x.P, fn))
	}
	x.oblCount[base]++
	name := fmt.Sprintf("%s#%d", base, x.oblCount[base])
	// one query per conjunct (conjoined goals time out where the parts take milliseconds)
	parts := []string{goal}
	if kind == "post" || kind == "inv-init" || kind == "inv-step" || kind == "pre" {
		parts = x.sc.splitGoal(goal)
	}
	for i, g := range parts {
		n := name
		if len(parts) > 1 {
			n = fmt.Sprintf("%s.%d", name, i+1)
		}
		x.obls = append(x.obls, &Obligation{Name: n, Kind: kind, Label: label, Func: fnKey(x.root), Pos: x.sc.pos(), Goal: implies(st.pc, g), Src: x.srcPos(pos), Clause: x.postClause})
	}
}

func shortKey(P *Program, k string) string {
	return strings.ReplaceAll(k, P.pkgPath+".", "")
}

// ---- running a function body ----

type frame struct {
	fn       *ssa.Function
	env      map[ssa.Value]*Val
	bindings []*Val
	args     []*Val
	out      map[*ssa.BasicBlock]*State
	isBack   map[[2]int]bool
	headers  map[*ssa.BasicBlock]*loopInfo
	top      bool
	ctr      *Contract
	rets     []retInfo
	old      *State
	cells    map[*ssa.Alloc]*Cell
	blockPC  map[*ssa.BasicBlock]string
}

type retInfo struct {
	st   *State
	vals []*Val
	pos  token.Pos
}

type loopInfo struct {
	header *ssa.BasicBlock
	body   map[*ssa.BasicBlock]bool
	ord    int
	invs   []*Clause
}

func rpo(fn *ssa.Function) []*ssa.BasicBlock {
	seen := map[*ssa.BasicBlock]bool{}
	var post []*ssa.BasicBlock
	var dfs func(b *ssa.BasicBlock)
	dfs = func(b *ssa.BasicBlock) {
		seen[b] = true
		for _, s := range b.Succs {
			if !seen[s] {
				dfs(s)
			}
		}
		post = append(post, b)
	}
	dfs(fn.Blocks[0])
	for i, j := 0, len(post)-1; i < j; i, j = i+1, j-1 {
		post[i], post[j] = post[j], post[i]
	}
	return post
}

// findLoops computes back edges (target dominates source) and natural loop bodies.
func findLoops(fn *ssa.Function) (map[[2]int]bool, map[*ssa.BasicBlock]*loopInfo) {
	back := map[[2]int]bool{}
	headers := map[*ssa.BasicBlock]*loopInfo{}
	order := rpo(fn)
	reach := map[*ssa.BasicBlock]bool{}
	for _, b := range order {
		reach[b] = true
	}
	for _, b := range order {
		for _, s := range b.Succs {
			if s.Dominates(b) {
				back[[2]int{b.Index, s.Index}] = true
				li := headers[s]
				if li == nil {
					li = &loopInfo{header: s, body: map[*ssa.BasicBlock]bool{s: true}}
					headers[s] = li
				}
				// natural loop: nodes that reach b without passing through s
				var stack []*ssa.BasicBlock
				if !li.body[b] {
					li.body[b] = true
					stack = append(stack, b)
				}
				for len(stack) > 0 {
					n := stack[len(stack)-1]
					stack = stack[:len(stack)-1]
					for _, p := range n.Preds {
						if reach[p] && !li.body[p] {
							li.body[p] = true
							stack = append(stack, p)
						}
					}
				}
			}
		}
	}
	var hs []*ssa.BasicBlock
	for h := range headers {
		hs = append(hs, h)
	}
	sort.Slice(hs, func(i, j int) bool { return hs[i].Index < hs[j].Index })
	for i, h := range hs {
		headers[h].ord = i + 1
	}
	return back, headers
}

func hasLoops(fn *ssa.Function) bool {
	if len(fn.Blocks) == 0 {
		return false
	}
	b, _ := findLoops(fn)
	return len(b) > 0
}

// run symbolically executes fn from state st. For top-level runs the contract's postconditions are
// checked at each return; otherwise the merged return value and state are returned.
func (x *Exec) run(fn *ssa.Function, args []*Val, bindings []*Val, st *State, top bool, ctr *Contract) (*Val, *State) {
	if len(fn.Blocks) == 0 {
		panic(unsupported("function %s has no body", fn))
	}
	if x.depth > 40 {
		panic(unsupported("inlining too deep at %s", fn))
	}
	for _, s := range x.stack {
		if s == fn {
			panic(unsupported("recursive call of %s", fn))
		}
	}
	x.depth++
	x.stack = append(x.stack, fn)
	defer func() { x.depth--; x.stack = x.stack[:len(x.stack)-1] }()

	f := &frame{fn: fn, env: map[ssa.Value]*Val{}, bindings: bindings, args: args, out: map[*ssa.BasicBlock]*State{}, top: top, ctr: ctr,
		cells: map[*ssa.Alloc]*Cell{}, blockPC: map[*ssa.BasicBlock]string{}}
	f.isBack, f.headers = findLoops(fn)
	if ctr == nil {
		ctr = x.P.cs.byKey[fnKey(fn)]
	}
	if ctr != nil {
		for _, inv := range ctr.Invs {
			found := false
			for _, li := range f.headers {
				if li.ord == inv.Loop {
					li.invs = append(li.invs, inv)
					found = true
				}
			}
			if !found && top {
				panic(unsupported("the contract has an invariant for loop %d, but %s has %d loop(s)", inv.Loop, fn, len(f.headers)))
			}
		}
	}
	for i, p := range fn.Params {
		f.env[p] = args[i]
	}
	for i, fv := range fn.FreeVars {
		if i < len(bindings) {
			f.env[fv] = bindings[i]
		}
	}
	savedDefers := st.defers
	st = st.clone()
	st.defers = nil
	f.old = st.clone()

	order := rpo(fn)
	for _, b := range order {
		if fn.Recover != nil && b == fn.Recover {
			continue
		}
		var in *State
		var conds []string
		var preds []*ssa.BasicBlock
		if b.Index == 0 {
			in = st
		} else {
			var states []*State
			for _, p := range b.Preds {
				if f.isBack[[2]int{p.Index, b.Index}] {
					continue
				}
				ps := f.out[p]
				if ps == nil || ps.pc == "false" {
					continue
				}
				c := and(ps.pc, x.edgeCond(f, p, b))
				if c == "false" {
					continue
				}
				conds = append(conds, c)
				states = append(states, ps)
				preds = append(preds, p)
			}
			if len(states) == 0 {
				continue
			}
			in = x.mergeStates(conds, states)
		}
		x.cur = in
		// phis
		for _, ins := range b.Instrs {
			phi, ok := ins.(*ssa.Phi)
			if !ok {
				break
			}
			var vals []*Val
			for _, p := range preds {
				vals = append(vals, x.val(f, phi.Edges[predIndex(b, p)]))
			}
			f.env[phi] = x.mergeVals(conds, vals)
		}
		if li := f.headers[b]; li != nil {
			x.enterLoop(f, li, in)
		}
		f.blockPC[b] = in.pc
		x.execBlock(f, b, in)
	}
	if top {
		return nil, nil
	}
	if len(f.rets) == 0 {
		// function never returns on any path
		dead := st.clone()
		dead.pc = "false"
		dead.defers = savedDefers
		var rv *Val
		if fn.Signature.Results().Len() > 0 {
			rv = x.zeroResults(fn)
		}
		return rv, dead
	}
	var conds []string
	var states []*State
	for _, r := range f.rets {
		conds = append(conds, r.st.pc)
		states = append(states, r.st)
	}
	out := x.mergeStates(conds, states)
	out.defers = savedDefers
	var rv *Val
	n := fn.Signature.Results().Len()
	if n > 0 {
		rv = &Val{K: KTuple, T: fn.Signature.Results()}
		for i := 0; i < n; i++ {
			var vs []*Val
			for _, r := range f.rets {
				vs = append(vs, r.vals[i])
			}
			rv.E = append(rv.E, x.mergeVals(conds, vs))
		}
		if n == 1 {
			rv = rv.E[0]
		}
	}
	return rv, out
}

func (x *Exec) zeroResults(fn *ssa.Function) *Val {
	n := fn.Signature.Results().Len()
	if n == 1 {
		return x.zero(fn.Signature.Results().At(0).Type())
	}
	return x.zero(fn.Signature.Results())
}

func predIndex(b, p *ssa.BasicBlock) int {
	for i, q := range b.Preds {
		if q == p {
			return i
		}
	}
	panic("predIndex")
}

func (x *Exec) edgeCond(f *frame, p, b *ssa.BasicBlock) string {
	last := p.Instrs[len(p.Instrs)-1]
	if iff, ok := last.(*ssa.If); ok {
		c := x.val(f, iff.Cond).S
		if p.Succs[0] == b && p.Succs[1] == b {
			return "true"
		}
		if p.Succs[0] == b {
			return c
		}
		return not(c)
	}
	return "true"
}

// ---- loops ----

// writeSetOfLoop: heap components, cells and phis that may change in the loop.
func (x *Exec) enterLoop(f *frame, li *loopInfo, st *State) {
	pos := token.NoPos
	for _, ins := range li.header.Instrs {
		if ins.Pos().IsValid() {
			pos = ins.Pos()
			break
		}
	}
	// 1. invariants hold on entry
	for _, inv := range li.invs {
		g := x.evalInvariant(f, li, inv, st, nil)
		x.oblige(st, "inv-init", inv.Label, clauseName(inv), g, pos)
	}
	auto := x.autoInvariants(f, li)
	for _, a := range auto {
		x.oblige(st, "inv-init", "", "auto:"+a.name, a.eval(st, nil), pos)
	}
	// 2. havoc everything the loop may change
	ws := x.loopWrites(f.fn, li)
	if ws.all {
		panic(unsupported("loop %d in %s calls code with unbounded effects (%s)", li.ord, f.fn, ws.why))
	}
	if f.fn == x.root {
		x.loopStatic[li] = ws.keys
	}
	x.prevTop = st.allocTop
	top := x.sc.declare("top", "Int")
	x.sc.assume("(>= " + top + " " + st.allocTop + ")")
	st.allocTop = top
	// fresh-only components: remember the pre-loop contents of old objects
	fresh := map[string]bool{}
	if f.top || x.spec == 0 {
		if ctr := x.P.cs.byKey[fnKey(f.fn)]; ctr != nil {
			if f.fn == x.root {
				for k := range x.rootFresh {
					fresh[k] = true
				}
				if items, ok := ctr.LoopFresh[li.ord]; ok {
					lf := x.expandKeys(items)
					x.loopFresh[li] = lf
					for k := range lf {
						fresh[k] = true
					}
				}
			}
		}
	}
	before := map[string]*HeapSym{}
	for _, k := range ws.sortedKeys() {
		if fresh[k] {
			before[k] = x.heapSym(st, k, x.compInfoOfKey(k))
		}
	}
	x.havocKeys(st, ws.sortedKeys())
	for _, k := range ws.sortedKeys() {
		if b, ok := before[k]; ok {
			x.frameOld(b, st.heap[k], x.top0)
		}
	}
	for _, b := range rpo(f.fn) {
		if !li.body[b] {
			continue
		}
		for _, ins := range b.Instrs {
			if s, ok := ins.(*ssa.Store); ok {
				if a := rootAlloc(s.Addr); a != nil {
					if c := f.cells[a]; c != nil {
						st.cells[c] = x.freshVal(c.T, "cell_"+c.name)
					}
				}
			}
		}
	}
	for _, ins := range li.header.Instrs {
		phi, ok := ins.(*ssa.Phi)
		if !ok {
			break
		}
		name := phi.Comment
		if name == "" {
			name = phi.Name()
		}
		f.env[phi] = x.havocLike(f.env[phi], phi.Type(), name)
	}
	// 3. assume invariants
	for _, inv := range li.invs {
		g := x.evalInvariant(f, li, inv, st, nil)
		x.sc.assume(implies(st.pc, g))
	}
	for _, a := range auto {
		x.sc.assume(implies(st.pc, a.eval(st, nil)))
	}
}

func clauseName(c *Clause) string {
	if c.Label != "" {
		return c.Label
	}
	return c.Src
}

// havocLike returns a fresh value with the same shape as v.
func (x *Exec) havocLike(v *Val, t types.Type, hint string) *Val {
	switch v.K {
	case KFunc:
		return v
	case KPtr:
		if v.P.Kind != PHeap || len(v.P.Path) != 0 {
			return v // local/interior pointers are not reassigned in loops we support
		}
	}
	nv := x.freshVal(t, hint)
	return nv
}

func rootAlloc(v ssa.Value) *ssa.Alloc {
	for {
		switch a := v.(type) {
		case *ssa.Alloc:
			return a
		case *ssa.FieldAddr:
			v = a.X
		case *ssa.IndexAddr:
			v = a.X
		default:
			return nil
		}
	}
}

type autoInv struct {
	name string
	eval func(st *State, override map[*ssa.Phi]*Val) string
}

// autoInvariants: integer header phis that start at a constant and are only incremented keep phi >= c.
func (x *Exec) autoInvariants(f *frame, li *loopInfo) []autoInv {
	var out []autoInv
	for _, ins := range li.header.Instrs {
		phi, ok := ins.(*ssa.Phi)
		if !ok {
			break
		}
		if !isGoInt(phi.Type()) && bitWidth(phi.Type()) == 0 {
			continue
		}
		if !isSigned(phi.Type()) && !isGoInt(phi.Type()) {
			continue
		}
		var c *ssa.Const
		okPat := true
		for i, e := range phi.Edges {
			p := li.header.Preds[i]
			if f.isBack[[2]int{p.Index, li.header.Index}] {
				// must be phi + positive const (possibly through another phi-free chain)
				if !isIncrementOf(e, phi) {
					okPat = false
				}
			} else {
				k, ok := e.(*ssa.Const)
				if !ok {
					okPat = false
				} else if c == nil {
					c = k
				} else if c.Int64() != k.Int64() {
					okPat = false
				}
			}
		}
		if !okPat || c == nil {
			continue
		}
		cv := c
		// range loops: t = phi + 1; if t < N: the index never passes N
		if phi.Comment == "rangeindex" {
			for _, ins2 := range li.header.Instrs {
				cmpI, ok := ins2.(*ssa.BinOp)
				if !ok || cmpI.Op != token.LSS {
					continue
				}
				inc, ok := cmpI.X.(*ssa.BinOp)
				if !ok || inc.Op != token.ADD || inc.X != ssa.Value(phi) {
					continue
				}
				bound := cmpI.Y
				if bi, isInstr := bound.(ssa.Instruction); isInstr && li.body[bi.Block()] {
					continue
				}
				phi2 := phi
				out = append(out, autoInv{name: "rangeindex<N", eval: func(st *State, ov map[*ssa.Phi]*Val) string {
					v := f.env[phi2]
					if ov != nil && ov[phi2] != nil {
						v = ov[phi2]
					}
					n := x.val(f, bound)
					return x.sc.iLe(x.sc.iAdd(v.S, x.sc.iConst(1)), n.S)
				}})
			}
		}
		out = append(out, autoInv{name: phi.Comment + ">=" + cv.Value.String(), eval: func(st *State, ov map[*ssa.Phi]*Val) string {
			v := f.env[phi]
			if ov != nil && ov[phi] != nil {
				v = ov[phi]
			}
			k := x.constVal(cv)
			return x.cmp(token.GEQ, v, k, phi.Type())
		}})
	}
	return out
}

func isIncrementOf(e ssa.Value, phi *ssa.Phi) bool {
	b, ok := e.(*ssa.BinOp)
	if !ok || b.Op != token.ADD {
		return false
	}
	if b.X != ssa.Value(phi) {
		return false
	}
	k, ok := b.Y.(*ssa.Const)
	return ok && k.Value != nil && k.Value.Kind() == constant.Int && constant.Sign(k.Value) > 0
}

// leaveLoop is called at a back edge p -> header.
func (x *Exec) backEdge(f *frame, p *ssa.BasicBlock, li *loopInfo, st *State, cond string) {
	ov := map[*ssa.Phi]*Val{}
	idx := predIndex(li.header, p)
	for _, ins := range li.header.Instrs {
		phi, ok := ins.(*ssa.Phi)
		if !ok {
			break
		}
		ov[phi] = x.val(f, phi.Edges[idx])
	}
	s2 := st.clone()
	s2.pc = and(st.pc, cond)
	pos := p.Instrs[len(p.Instrs)-1].Pos()
	if !pos.IsValid() {
		for _, ins := range li.header.Instrs {
			if ins.Pos().IsValid() {
				pos = ins.Pos()
				break
			}
		}
	}
	for _, inv := range li.invs {
		g := x.evalInvariant(f, li, inv, s2, ov)
		x.oblige(s2, "inv-step", inv.Label, clauseName(inv), g, pos)
	}
	for _, a := range x.autoInvariants(f, li) {
		x.oblige(s2, "inv-step", "", "auto:"+a.name, a.eval(s2, ov), pos)
	}
}

// evalInvariant evaluates an invariant clause at the loop header with phis possibly overridden.
func (x *Exec) evalInvariant(f *frame, li *loopInfo, inv *Clause, st *State, ov map[*ssa.Phi]*Val) string {
	args := make([]*Val, len(inv.Args))
	for i, a := range inv.Args {
		switch a.Kind {
		case "recv", "param":
			args[i] = x.resolveNamed(f, li, a.Name, token.NoPos, st, ov)
		case "freevar":
			args[i] = x.resolveNamed(f, li, a.Name, token.NoPos, st, ov)
		case "local":
			args[i] = x.resolveNamed(f, li, a.Name, token.Pos(a.Idx), st, ov)
		case "logical":
			args[i] = x.logical(a.Name, a.Type, inv.Fn, i)
		case "rangeover":
			// header: t = rangeindex+1; t < len(X)  -> X
			for _, ins := range li.header.Instrs {
				if bo, ok := ins.(*ssa.BinOp); ok && bo.Op == token.LSS {
					if c, ok := bo.Y.(*ssa.Call); ok {
						if b, ok := c.Call.Value.(*ssa.Builtin); ok && b.Name() == "len" && len(c.Call.Args) == 1 {
							args[i] = x.val(f, c.Call.Args[0])
						}
					}
				}
			}
		case "rangeidx":
			for _, ins := range li.header.Instrs {
				if phi, ok := ins.(*ssa.Phi); ok && phi.Comment == "rangeindex" {
					args[i] = f.env[phi]
					if ov != nil && ov[phi] != nil {
						args[i] = ov[phi]
					}
				}
			}
		}
		if args[i] == nil {
			panic(unsupported("cannot resolve %q in invariant %s", a.Name, inv.Src))
		}
	}
	return x.evalClauseFn(inv.Fn, args, st, f.old)
}

// resolveNamed finds the value of source variable name at the loop header.
func (x *Exec) resolveNamed(f *frame, li *loopInfo, name string, declPos token.Pos, st *State, ov map[*ssa.Phi]*Val) *Val {
	fn := f.fn
	matches := func(obj types.Object) bool {
		if obj == nil || obj.Name() != name {
			return false
		}
		return declPos == token.NoPos || obj.Pos() == declPos
	}
	// candidates from DebugRefs
	var cands []ssa.Value
	var addrs []ssa.Value
	for _, b := range fn.Blocks {
		for _, ins := range b.Instrs {
			if d, ok := ins.(*ssa.DebugRef); ok && matches(d.Object()) {
				if d.IsAddr {
					addrs = append(addrs, d.X)
				} else {
					cands = append(cands, d.X)
				}
			}
		}
	}
	// variable living in memory
	for _, a := range addrs {
		if al, ok := a.(*ssa.Alloc); ok {
			pv := f.env[al]
			if pv == nil {
				continue
			}
			return x.load(st, pv.P)
		}
	}
	for _, b := range fn.Blocks {
		for _, ins := range b.Instrs {
			if al, ok := ins.(*ssa.Alloc); ok && al.Comment == name && f.env[al] != nil && declPos == token.NoPos {
				return x.load(st, f.env[al].P)
			}
		}
	}
	// header phi
	for _, ins := range li.header.Instrs {
		phi, ok := ins.(*ssa.Phi)
		if !ok {
			break
		}
		isC := phi.Comment == name
		for _, c := range cands {
			if c == ssa.Value(phi) {
				isC = true
			}
		}
		if isC && (declPos == token.NoPos || phi.Comment == name) {
			if ov != nil && ov[phi] != nil {
				return ov[phi]
			}
			return f.env[phi]
		}
	}
	// parameters and free variables
	for _, p := range fn.Params {
		if p.Name() == name && (declPos == token.NoPos || p.Object() == nil || p.Object().Pos() == declPos) {
			return f.env[p]
		}
	}
	for _, fv := range fn.FreeVars {
		if fv.Name() == name {
			v := f.env[fv]
			if v != nil && v.K == KPtr {
				if _, isPtr := fv.Type().(*types.Pointer); isPtr {
					// captured by reference: the variable's value is the pointee
					return x.load(st, v.P)
				}
			}
			return v
		}
	}
	// a definition dominating the header
	var best ssa.Value
	for _, c := range cands {
		ins, ok := c.(ssa.Instruction)
		if !ok {
			if f.env[c] != nil {
				best = c
			}
			continue
		}
		if ins.Block() != li.header && ins.Block().Dominates(li.header) && f.env[c] != nil {
			if best == nil {
				best = c
			} else if bi, ok := best.(ssa.Instruction); ok {
				if bi.Block().Dominates(ins.Block()) {
					best = c
				}
			}
		}
	}
	if best != nil {
		return f.env[best]
	}
	return nil
}

// logical returns the free constant for a logical variable of the function under verification.
func (x *Exec) logical(name, typ string, clauseFn string, argIdx int) *Val {
	if v, ok := x.logicals[name]; ok {
		return v
	}
	fn := x.P.spkg.Func(clauseFn)
	t := fn.Signature.Params().At(argIdx).Type()
	v := x.freshVal(t, "logical_"+name)
	x.logicals[name] = v
	return v
}

// evalClauseFn evaluates a generated clause function (pure) and returns its Bool term.
func (x *Exec) evalClauseFn(name string, args []*Val, st *State, old *State) string {
	fn := x.P.spkg.Func(name)
	if fn == nil {
		panic("no clause function " + name)
	}
	x.spec++
	savedOld := x.oldState
	x.oldState = old
	savedStack, savedDepth := x.stack, x.depth
	x.stack = nil
	defer func() { x.spec--; x.oldState = savedOld; x.stack, x.depth = savedStack, savedDepth }()
	s2 := st.clone()
	s2.pc = "true"
	x.guards = append(x.guards, st.pc)
	defer func() { x.guards = x.guards[:len(x.guards)-1] }()
	rv, _ := x.run(fn, args, nil, s2, false, nil)
	return rv.S
}

// ---- blocks and instructions ----

func (x *Exec) execBlock(f *frame, b *ssa.BasicBlock, st *State) {
	if f.fn == x.root {
		x.curBlock = b
	}
	for _, ins := range b.Instrs {
		if st.pc == "false" {
			break
		}
		x.cur = st
		if ins.Pos().IsValid() {
			x.curPos = ins.Pos()
		}
		switch v := ins.(type) {
		case *ssa.Phi, *ssa.DebugRef:
			continue
		case *ssa.If, *ssa.Jump:
			// handled through edgeCond
		case *ssa.Return:
			var vals []*Val
			for _, r := range v.Results {
				vals = append(vals, x.val(f, r))
			}
			rs := st.clone()
			if f.top {
				// vacuity guard: this return must be reachable under the assumptions made so far
				ord := returnOrdinal(f.fn, v)
				dead := false
				if f.ctr != nil {
					for _, d := range f.ctr.DeadReturns {
						if d == ord {
							dead = true
						}
					}
				}
				kind := "cover"
				if dead {
					kind = "dead" // declared unreachable by the contract: must indeed be unreachable
				}
				x.obls = append(x.obls, &Obligation{Name: fmt.Sprintf("%s/%s/return@%d", shortKey(x.P, fnKey(x.root)), kind, ord), Kind: kind, Func: fnKey(x.root), Pos: x.sc.pos(), Goal: not(rs.pc), Src: x.srcPos(v.Pos())})
				x.checkPost(f, rs, vals, v.Pos())
			}
			f.rets = append(f.rets, retInfo{rs, vals, v.Pos()})
		case *ssa.Panic:
			x.oblige(st, "unreach", "", "panic", "false", v.Pos())
			st.pc = "false"
		case *ssa.RunDefers:
			x.runDefers(f, b, st)
		default:
			x.execInstr(f, ins, st)
		}
	}
	f.out[b] = st
	// back edges
	for _, s := range b.Succs {
		if f.isBack[[2]int{b.Index, s.Index}] && st.pc != "false" {
			x.backEdge(f, b, f.headers[s], st, x.edgeCond(f, b, s))
		}
	}
}

func (x *Exec) runDefers(f *frame, b *ssa.BasicBlock, st *State) {
	ds := st.defers
	st.defers = nil
	for i := len(ds) - 1; i >= 0; i-- {
		d := ds[i]
		if d.block != nil && d.block.Dominates(b) {
			d.call(st)
			continue
		}
		// conditional: run on a copy and merge
		s2 := st.clone()
		s2.pc = and(st.pc, d.cond)
		d.call(s2)
		s3 := st.clone()
		s3.pc = and(st.pc, not(d.cond))
		m := x.mergeStates([]string{s2.pc, s3.pc}, []*State{s2, s3})
		*st = *m
		st.defers = nil
	}
}

// checkPost: at a return of the function under verification, every ensures clause must hold.
func (x *Exec) checkPost(f *frame, st *State, vals []*Val, pos token.Pos) {
	if f.ctr == nil {
		return
	}
	// ghost code at return: append to the declared logs and define the new entries' fields
	if !f.ctr.Trusted {
		for _, lg := range f.ctr.Appends {
			x.appendLog(st, lg)
		}
		for _, cl := range f.ctr.Defines {
			x.clauseFn = f.fn
			args := x.clauseArgs(f.ctr, cl, f.args, x.bindingValues(st, f.fn, f.bindings), vals, nil)
			x.sc.assume(implies(st.pc, x.evalClauseFn(cl.Fn, args, st, f.old)))
		}
	}
	for _, cl := range f.ctr.Ensures {
		x.clauseFn = f.fn
		args := x.clauseArgs(f.ctr, cl, f.args, x.bindingValues(st, f.fn, f.bindings), vals, nil)
		g := x.evalClauseFn(cl.Fn, args, st, f.old)
		if len(x.stack) <= 1 {
			x.postClause = cl
		}
		x.oblige(st, "post", cl.Label, clauseName(cl), g, pos)
		x.postClause = nil
	}
}

// clauseArgs assembles the argument list of a requires/ensures clause function.
func (x *Exec) clauseArgs(c *Contract, cl *Clause, args []*Val, bindings []*Val, results []*Val, inst map[string]*Val) []*Val {
	out := make([]*Val, len(cl.Args))
	pi := 0
	for i, a := range cl.Args {
		switch a.Kind {
		case "recv":
			out[i] = args[0]
			pi = 1
		case "param":
			base := 0
			if c.RecvName != "" {
				base = 1
			}
			out[i] = args[base+a.Idx]
		case "result":
			out[i] = results[a.Idx]
		case "freevar":
			idx := a.Idx
			if x.clauseFn != nil {
				for k, fv := range x.clauseFn.FreeVars {
					if fv.Name() == a.Name {
						idx = k
					}
				}
			}
			out[i] = bindings[idx]
		case "logical":
			if inst != nil && inst[a.Name] != nil {
				out[i] = inst[a.Name]
			} else {
				out[i] = x.logical(a.Name, a.Type, cl.Fn, i)
			}
		}
	}
	_ = pi
	return out
}

func (x *Exec) newCell(t types.Type, name string) *Cell {
	x.cellN++
	return &Cell{id: x.cellN, T: t, name: name}
}

func (x *Exec) val(f *frame, v ssa.Value) *Val {
	if r, ok := f.env[v]; ok {
		return r
	}
	switch c := v.(type) {
	case *ssa.Const:
		return x.constVal(c)
	case *ssa.Function:
		return &Val{K: KFunc, T: c.Type(), Fn: &FuncVal{Fn: c}}
	case *ssa.Global:
		return x.globalPtr(c)
	case *ssa.Builtin:
		return &Val{K: KFunc, T: c.Type(), Fn: &FuncVal{}}
	}
	panic(unsupported("value %s (%T) has no symbolic value in %s", v.Name(), v, f.fn))
}

func (x *Exec) globalPtr(g *ssa.Global) *Val {
	id, ok := x.globalRefs[g]
	if !ok {
		id = len(x.globalRefs) + 1
		x.globalRefs[g] = id
	}
	elem := g.Type().(*types.Pointer).Elem()
	return &Val{K: KPtr, T: g.Type(), P: &Ptr{Kind: PHeap, Ref: fmt.Sprintf("%d", id), Root: elem}}
}

const firstDynRef = 100000 // references below are reserved for globals and constants

func (x *Exec) constVal(c *ssa.Const) *Val {
	t := c.Type()
	if c.Value == nil {
		return x.zero(t)
	}
	srt, ok := x.scalarSort(t)
	if !ok {
		panic(unsupported("constant of type %s", t))
	}
	switch c.Value.Kind() {
	case constant.Bool:
		if constant.BoolVal(c.Value) {
			return scalar(t, "true", "Bool")
		}
		return scalar(t, "false", "Bool")
	case constant.String:
		return scalar(t, x.sc.strLit(constant.StringVal(c.Value)), "Str")
	case constant.Int:
		bi, _ := new(big.Int).SetString(c.Value.ExactString(), 10)
		if strings.HasPrefix(srt, "(_ FloatingPoint") {
			return scalar(t, x.fpConst(c.Value), srt)
		}
		if srt == "Int" {
			return scalar(t, intConst(bi), srt)
		}
		var n int
		fmt.Sscanf(srt, "(_ BitVec %d)", &n)
		return scalar(t, bvConst(bi, n), srt)
	case constant.Float:
		return scalar(t, x.fpConst(c.Value), srt)
	}
	panic(unsupported("constant %s", c))
}

func (x *Exec) fpConst(v constant.Value) string {
	f, _ := constant.Float64Val(v)
	// exact decimal via rational
	r, _ := new(big.Rat).SetString(constant.ToFloat(v).ExactString())
	_ = f
	if r == nil {
		panic(unsupported("float constant %s", v))
	}
	num, den := r.Num(), r.Denom()
	return fmt.Sprintf("((_ to_fp 11 53) RNE (/ %s.0 %s.0))", num.String(), den.String())
}

// returnOrdinal numbers the return statements of fn in source order (1-based).
func returnOrdinal(fn *ssa.Function, r *ssa.Return) int {
	var all []*ssa.Return
	for _, b := range fn.Blocks {
		for _, ins := range b.Instrs {
			if rr, ok := ins.(*ssa.Return); ok {
				if fn.Recover != nil && b == fn.Recover {
					continue
				}
				all = append(all, rr)
			}
		}
	}
	sort.SliceStable(all, func(i, j int) bool { return all[i].Pos() < all[j].Pos() })
	for i, rr := range all {
		if rr == r {
			return i + 1
		}
	}
	return 0
}
