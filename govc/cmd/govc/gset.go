package main

import (
	"fmt"
	"go/token"
	"go/types"
	"math/big"
	"sort"
	"strings"

	"golang.org/x/tools/go/ssa"
)

// ---- ghost sets of interface values, and the model of github.com/deckarep/golang-set ----
//
// A ghost set (family F, owner object o) is a triple
//
//	has  : owner -> 128-bit payload -> Bool
//	etag : owner -> Int      (tag of the dynamic type of the elements; 0 while never filled)
//	card : owner -> Int
//
// An element is an interface value; its key is the value's leaves concatenated and zero-extended to
// 128 bits. Only element types whose flattened representation is a sequence of bit-vectors of at
// most 128 bits in total are supported (the repository uses uint32, uint64 and two-field structs of
// those); anything else is refused as unsupported. Sets are homogeneous: adding a value of another
// dynamic type to a non-empty set is an obligation of the model ("model/..."), so the assumption is
// checked at every Add/NewSet of the functions under contract and assumed for the sets that exist
// when a function is entered.
//
// golang-set's thread-safe Set (the only implementation NewSet returns) is modelled as the ghost set
// family "set" owned by the object the interface value points to. Every method is one atomic step
// (the type's documented guarantee). Pop on a non-empty set removes and returns an arbitrary
// element; on an empty set it returns nil. The relation between card and has that the model relies
// on (card >= 0; card == 0 iff no element; a non-empty set has an element type) is assumed at each
// Cardinality()/Pop() - it is an invariant of the real data structure (a Go map's len).

const gsBits = 128

func (x *Exec) gsKeys3(fam string) (string, string, string) {
	hk, ck, tk := "G|gs:"+fam+".has", "G|gs:"+fam+".card", "G|gs:"+fam+".etag"
	x.keyInfo[hk] = compInfo{sort: "(Array Int (Array " + bvSort(gsBits) + " Bool))"}
	x.keyInfo[ck] = compInfo{sort: "(Array Int Int)"}
	x.keyInfo[tk] = compInfo{sort: "(Array Int Int)"}
	return hk, ck, tk
}

func (x *Exec) gsKeys(fam string) (string, string) {
	hk, ck, _ := x.gsKeys3(fam)
	return hk, ck
}

// gsEncodable: the type's leaves are all bit-vectors, at most gsBits in total.
func (x *Exec) gsEncodable(t types.Type) (int, bool) {
	if _, isIface := t.Underlying().(*types.Interface); isIface {
		return 0, false
	}
	if _, isPtr := t.Underlying().(*types.Pointer); isPtr {
		return 0, false
	}
	w := 0
	ls := x.leaves(t)
	if len(ls) == 0 {
		return 0, false
	}
	for _, l := range ls {
		var n int
		if _, err := fmt.Sscanf(l.Sort, "(_ BitVec %d)", &n); err != nil {
			return 0, false
		}
		w += n
	}
	return w, w <= gsBits
}

func gsPad(terms []string, w int) string {
	t := terms[0]
	if len(terms) > 1 {
		t = "(concat " + strings.Join(terms, " ") + ")"
	}
	if w < gsBits {
		t = fmt.Sprintf("((_ zero_extend %d) %s)", gsBits-w, t)
	}
	return t
}

// gsCandidates: the element types that can occur in ghost sets of this program: every concrete,
// encodable type that is converted to an interface in a function of the package that also uses
// golang-set or a gs* ghost built-in.
func (x *Exec) gsCandidates() []types.Type {
	x.P.implMu.Lock()
	defer x.P.implMu.Unlock()
	if x.P.gsCands != nil {
		return x.P.gsCands
	}
	seen := map[string]types.Type{}
	for _, fn := range x.P.allFns {
		uses := false
		var mis []*ssa.MakeInterface
		for _, b := range fn.Blocks {
			for _, ins := range b.Instrs {
				switch v := ins.(type) {
				case *ssa.MakeInterface:
					mis = append(mis, v)
				case ssa.CallInstruction:
					c := v.Common()
					if c.IsInvoke() {
						if strings.Contains(c.Method.FullName(), "golang-set") {
							uses = true
						}
					} else if f, ok := c.Value.(*ssa.Function); ok {
						if strings.Contains(fnKey(f), "golang-set") || strings.HasPrefix(originName(f), "gs") {
							uses = true
						}
					}
				}
			}
		}
		if !uses {
			continue
		}
		for _, mi := range mis {
			if _, ok := x.gsEncodable(mi.X.Type()); ok {
				seen[typeKey(mi.X.Type())] = mi.X.Type()
			}
		}
	}
	var ks []string
	for k := range seen {
		ks = append(ks, k)
	}
	sort.Strings(ks)
	out := []types.Type{}
	for _, k := range ks {
		out = append(out, seen[k])
	}
	x.P.gsCands = out
	return out
}

// gsKey: (tag, payload) of an interface value.
func (x *Exec) gsKey(st *State, v *Val) (string, string) {
	if v.K != KIface {
		panic(unsupported("ghost set element that is not an interface value"))
	}
	if v.box != nil {
		w, ok := x.gsEncodable(v.boxT)
		if !ok {
			panic(unsupported("ghost set element type %s", v.boxT))
		}
		return x.tagOf(v.boxT), gsPad(x.flatten(st, v.box), w)
	}
	tag, ref := v.E[0].S, v.E[1].S
	pay := bvConst(big.NewInt(0), gsBits)
	for _, t := range x.gsCandidates() {
		w, _ := x.gsEncodable(t)
		lv := x.load(st, &Ptr{Kind: PHeap, Ref: ref, Root: t})
		pay = ite(eq(tag, x.tagOf(t)), gsPad(x.flatten(st, lv), w), pay)
	}
	return tag, x.sc.defineB(x, "gskey", bvSort(gsBits), pay)
}

func (x *Exec) gsCandidateKeys() []string {
	var out []string
	for _, t := range x.gsCandidates() {
		out = append(out, x.keysUnder("H", t, nil)...)
	}
	return out
}

type gsState struct {
	hk, ck, tk      string
	hci, cci, tci   compInfo
	has, card, etag string
	decl            bool // all three components are declared constants (usable in patterns)
}

func (x *Exec) gsGet(st *State, fam string) *gsState {
	g := &gsState{}
	g.hk, g.ck, g.tk = x.gsKeys3(fam)
	g.hci, g.cci, g.tci = x.keyInfo[g.hk], x.keyInfo[g.ck], x.keyInfo[g.tk]
	hs, cs, ts := x.heapSym(st, g.hk, g.hci), x.heapSym(st, g.ck, g.cci), x.heapSym(st, g.tk, g.tci)
	g.has, g.card, g.etag = x.use(hs), x.use(cs), x.use(ts)
	// Representation invariant of real sets, stated once for every triple of unconstrained
	// (declared) component versions - the entry state and the state after a call that may have
	// changed sets: card >= 0; card == 0 exactly when there is no element; a non-empty set has an
	// element type.
	g.decl = hs.top != "" && cs.top != "" && ts.top != ""
	if g.decl {
		k := "gswf:" + g.has + "|" + g.card + "|" + g.etag
		if !x.sc.decl[k] {
			x.sc.decl[k] = true
			x.sc.emit("(assert (forall ((o Int)) (! (and (>= (select %s o) 0) (=> (= (select %s o) 0) (= (select %s o) %s)) (=> (> (select %s o) 0) (> (select %s o) 0))) :pattern ((select %s o)) :pattern ((select %s o)) :pattern ((select %s o)))))",
				g.card, g.card, g.has, gsEmpty(), g.card, g.etag, g.card, g.has, g.etag)
		}
	}
	return g
}

func (x *Exec) gsSet(st *State, g *gsState, obj, has, card, etag string) {
	if has != "" {
		x.setHeap(st, g.hk, g.hci, sto(g.has, obj, has))
		g.has = x.use(x.heapSym(st, g.hk, g.hci))
	}
	if card != "" {
		x.setHeap(st, g.ck, g.cci, sto(g.card, obj, card))
		g.card = x.use(x.heapSym(st, g.ck, g.cci))
	}
	if etag != "" {
		x.setHeap(st, g.tk, g.tci, sto(g.etag, obj, etag))
		g.etag = x.use(x.heapSym(st, g.tk, g.tci))
	}
}

func gsEmpty() string { return "((as const (Array " + bvSort(gsBits) + " Bool)) false)" }

// gsMember: v (with key tag, pay) is an element of obj's set.
func gsMember(g *gsState, obj, tag, pay string) string {
	return and(eq(sel(g.etag, obj), tag), sel(sel(g.has, obj), pay))
}

// gsWF: facts every real set satisfies, stated for owner obj under the current path condition.
func (x *Exec) gsWF(st *State, g *gsState, obj string) {
	c := sel(g.card, obj)
	wp := x.sc.declare("gswp", bvSort(gsBits))
	gd := x.guard(st)
	x.sc.assume(implies(gd, "(>= "+c+" 0)"))
	x.sc.assume(implies(gd, implies("(> "+c+" 0)", and(sel(sel(g.has, obj), wp), "(> "+sel(g.etag, obj)+" 0)"))))
	x.sc.assume(implies(gd, implies("(= "+c+" 0)", eq(sel(g.has, obj), gsEmpty()))))
}

func gsRecv(x *Exec, st *State, v *Val) string {
	if v.K != KIface {
		panic(unsupported("golang-set receiver"))
	}
	x.materialize(st, v)
	return v.E[1].S
}

// gsAddTo: the components of obj's set after adding (tag, pay); the homogeneity obligation is the
// caller's business.
func gsAddTo(g *gsState, obj, tag, pay string) (has, card, etag, was string) {
	was = gsMember(g, obj, tag, pay)
	c := sel(g.card, obj)
	return sto(sel(g.has, obj), pay, "true"), ite(was, c, "(+ "+c+" 1)"), tag, was
}

func (x *Exec) gsHomogeneous(st *State, g *gsState, obj, tag string, p token.Pos) {
	x.gsWF(st, g, obj)
	x.oblige(st, "model", "", "golang-set model: sets are homogeneous (element type differs from the set's)", or(eq(sel(g.card, obj), "0"), eq(sel(g.etag, obj), tag)), p)
}

func mSetAdd(x *Exec, st *State, a []*Val, s *types.Signature, p token.Pos) *Val {
	obj := gsRecv(x, st, a[0])
	g := x.gsGet(st, "set")
	tag, pay := x.gsKey(st, a[1])
	x.gsHomogeneous(st, g, obj, tag, p)
	has, card, etag, was := gsAddTo(g, obj, tag, pay)
	was = x.sc.defineB(x, "gswas", "Bool", was)
	x.gsSet(st, g, obj, has, card, etag)
	return scalar(types.Typ[types.Bool], not(was), "Bool")
}

func mSetRemove(x *Exec, st *State, a []*Val, s *types.Signature, p token.Pos) *Val {
	obj := gsRecv(x, st, a[0])
	g := x.gsGet(st, "set")
	tag, pay := x.gsKey(st, a[1])
	was := x.sc.defineB(x, "gswas", "Bool", gsMember(g, obj, tag, pay))
	c := sel(g.card, obj)
	x.gsSet(st, g, obj, ite(was, sto(sel(g.has, obj), pay, "false"), sel(g.has, obj)), ite(was, "(- "+c+" 1)", c), "")
	return nil
}

func mSetCardinality(x *Exec, st *State, a []*Val, s *types.Signature, p token.Pos) *Val {
	obj := gsRecv(x, st, a[0])
	g := x.gsGet(st, "set")
	x.gsWF(st, g, obj)
	return scalar(types.Typ[types.Int], x.intAsGo(sel(g.card, obj)), x.sc.intSort())
}

func mSetPop(x *Exec, st *State, a []*Val, s *types.Signature, p token.Pos) *Val {
	obj := gsRecv(x, st, a[0])
	g := x.gsGet(st, "set")
	x.gsWF(st, g, obj)
	c := sel(g.card, obj)
	tag := sel(g.etag, obj)
	// the popped element: for each candidate element type a fresh value of that type (so that the
	// key is syntactically the key of a value of that type); an arbitrary key otherwise
	pay := x.sc.declare("gspp", bvSort(gsBits))
	ref := x.alloc(st)
	for _, t := range x.gsCandidates() {
		w, _ := x.gsEncodable(t)
		var terms []string
		for _, l := range x.leaves(t) {
			v := x.sc.declare("gspv", l.Sort)
			terms = append(terms, v)
			key := "H|" + typeKey(t) + "|" + l.Path
			ci := x.hInfo(l)
			h := x.heapSym(st, key, ci)
			x.setHeap(st, key, ci, sto(x.use(h), ref, v))
		}
		pay = ite(eq(tag, x.tagOf(t)), gsPad(terms, w), pay)
	}
	pay = x.sc.defineB(x, "gspk", bvSort(gsBits), pay)
	ne := x.sc.defineB(x, "gsne", "Bool", "(> "+c+" 0)")
	gd := x.guard(st)
	x.sc.assume(implies(gd, implies(ne, sel(sel(g.has, obj), pay))))
	x.gsSet(st, g, obj, ite(ne, sto(sel(g.has, obj), pay, "false"), sel(g.has, obj)), ite(ne, "(- "+c+" 1)", c), "")
	return &Val{K: KIface, T: s.Results().At(0).Type(), E: []*Val{scalar(nil, ite(ne, tag, "0"), "Int"), scalar(nil, ite(ne, ref, "0"), "Int")}}
}

const gsNewMax = 2

// NewSet(items...): a fresh set holding the items (at most gsNewMax of them, an obligation at the
// call site).
func mSetNew(x *Exec, st *State, a []*Val, s *types.Signature, p token.Pos) *Val {
	ref := x.alloc(st)
	g := x.gsGet(st, "set")
	x.gsSet(st, g, ref, gsEmpty(), "0", "0")
	sl := a[0]
	if sl.K == KSlice {
		n := sl.E[2].S
		x.oblige(st, "model", "", fmt.Sprintf("NewSet model: at most %d initial elements", gsNewMax), x.sc.iLe(n, x.sc.iConst(gsNewMax)), p)
		et := sl.T.Underlying().(*types.Slice).Elem()
		for i := 0; i < gsNewMax; i++ {
			in := x.sc.iLt(x.sc.iConst(int64(i)), n)
			if in == "false" {
				continue
			}
			abs := x.sc.iAdd(sl.E[1].S, x.sc.iConst(int64(i)))
			ev := x.load(st, &Ptr{Kind: PElem, Ref: sl.E[0].S, Idx: abs, Root: et})
			tag, pay := x.gsKey(st, ev)
			x.oblige(st, "model", "", "golang-set model: sets are homogeneous (element type differs from the set's)", implies(in, or(eq(sel(g.card, ref), "0"), eq(sel(g.etag, ref), tag))), p)
			has, card, etag, _ := gsAddTo(g, ref, tag, pay)
			x.gsSet(st, g, ref, ite(in, has, sel(g.has, ref)), ite(in, card, sel(g.card, ref)), ite(in, etag, sel(g.etag, ref)))
		}
	}
	return &Val{K: KIface, T: s.Results().At(0).Type(), E: []*Val{scalar(nil, x.tagOf(types.Typ[types.UnsafePointer]), "Int"), scalar(nil, ref, "Int")}}
}

var gsModelTable = map[string]modelFn{
	"(github.com/deckarep/golang-set.Set).Add":         mSetAdd,
	"(github.com/deckarep/golang-set.Set).Remove":      mSetRemove,
	"(github.com/deckarep/golang-set.Set).Cardinality": mSetCardinality,
	"(github.com/deckarep/golang-set.Set).Pop":         mSetPop,
	"(github.com/deckarep/golang-set.Set).String":      mFreshPure,
	"github.com/deckarep/golang-set.NewSet":            mSetNew,
}

// gsModelWrites: static write set of the golang-set model functions.
func (x *Exec) gsModelWrites(key string, ws *WriteSet) bool {
	if !strings.Contains(key, "github.com/deckarep/golang-set") {
		return false
	}
	name := key[strings.LastIndex(key, ".")+1:]
	switch name {
	case "Add", "Remove", "NewSet", "Pop":
		hk, ck, tk := x.gsKeys3("set")
		ws.keys[hk], ws.keys[ck], ws.keys[tk] = true, true, true
		if name == "Pop" {
			for _, k := range x.gsCandidateKeys() {
				ws.keys[k] = true
			}
		}
	}
	return true
}

// gsPatterns: triggers for a frame quantifier over set owners, usable only on declared components.
func gsPatterns(v string, gs ...*gsState) string {
	var ps []string
	for _, g := range gs {
		if g.decl {
			ps = append(ps, fmt.Sprintf(":pattern ((select %s %s)) :pattern ((select %s %s)) :pattern ((select %s %s))", g.has, v, g.card, v, g.etag, v))
		}
	}
	return strings.Join(ps, " ")
}
