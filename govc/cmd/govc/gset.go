package main

import (
	"fmt"
	"math/big"
	"go/token"
	"go/types"
	"sort"
	"strings"

	"golang.org/x/tools/go/ssa"
)

// ---- ghost sets of interface values, and the model of github.com/deckarep/golang-set ----
//
// A ghost set (family F, owner object o) is a pair
//
//	has  : owner -> dynamic-type tag -> 128-bit payload -> Bool
//	card : owner -> Int
//
// An element is an interface value; its key is (tag of the dynamic type, the value's leaves
// concatenated and zero-extended to 128 bits). Only element types whose flattened representation is
// a sequence of bit-vectors of at most 128 bits in total are supported (the repository uses uint32,
// uint64 and two-field structs of those); anything else is refused as unsupported.
//
// golang-set's thread-safe Set (the only implementation NewSet returns) is modelled as the ghost set
// family "set" owned by the object the interface value points to. Every method is one atomic step
// (the type's documented guarantee). Pop on a non-empty set removes and returns an arbitrary
// element; on an empty set it returns nil. The relation between card and has that the model relies
// on (card >= 0; card == 0 iff no element) is assumed at each Cardinality()/Pop() - it is an
// invariant of the real data structure (a Go map's len).

const gsBits = 128

func (x *Exec) gsKeys(fam string) (string, string) {
	hk, ck := "G|gs:"+fam+".has", "G|gs:"+fam+".card"
	x.keyInfo[hk] = compInfo{sort: "(Array Int (Array Int (Array " + bvSort(gsBits) + " Bool)))"}
	x.keyInfo[ck] = compInfo{sort: "(Array Int Int)"}
	return hk, ck
}

// gsEncodable: the type's leaves are all bit-vectors, at most gsBits in total.
func (x *Exec) gsEncodable(t types.Type) (int, bool) {
	if _, isIface := t.Underlying().(*types.Interface); isIface {
		return 0, false
	}
	if _, isPtr := t.Underlying().(*types.Pointer); isPtr {
		return 0, false
	}
	w := 0
	ls := x.leaves(t)
	if len(ls) == 0 {
		return 0, false
	}
	for _, l := range ls {
		var n int
		if _, err := fmt.Sscanf(l.Sort, "(_ BitVec %d)", &n); err != nil {
			return 0, false
		}
		w += n
	}
	return w, w <= gsBits
}

func gsPad(terms []string, w int) string {
	t := terms[0]
	if len(terms) > 1 {
		t = "(concat " + strings.Join(terms, " ") + ")"
	}
	if w < gsBits {
		t = fmt.Sprintf("((_ zero_extend %d) %s)", gsBits-w, t)
	}
	return t
}

// gsCandidates: the element types that can occur in ghost sets of this program: every concrete,
// encodable type that is converted to an interface in a function of the package that also uses
// golang-set or a gs* ghost built-in.
func (x *Exec) gsCandidates() []types.Type {
	x.P.implMu.Lock()
	defer x.P.implMu.Unlock()
	if x.P.gsCands != nil {
		return x.P.gsCands
	}
	seen := map[string]types.Type{}
	for _, fn := range x.P.allFns {
		uses := false
		var mis []*ssa.MakeInterface
		for _, b := range fn.Blocks {
			for _, ins := range b.Instrs {
				switch v := ins.(type) {
				case *ssa.MakeInterface:
					mis = append(mis, v)
				case ssa.CallInstruction:
					c := v.Common()
					if c.IsInvoke() {
						if strings.Contains(c.Method.FullName(), "golang-set") {
							uses = true
						}
					} else if f, ok := c.Value.(*ssa.Function); ok {
						if strings.Contains(fnKey(f), "golang-set") || strings.HasPrefix(originName(f), "gs") {
							uses = true
						}
					}
				}
			}
		}
		if !uses {
			continue
		}
		for _, mi := range mis {
			if _, ok := x.gsEncodable(mi.X.Type()); ok {
				seen[typeKey(mi.X.Type())] = mi.X.Type()
			}
		}
	}
	var ks []string
	for k := range seen {
		ks = append(ks, k)
	}
	sort.Strings(ks)
	out := []types.Type{}
	for _, k := range ks {
		out = append(out, seen[k])
	}
	x.P.gsCands = out
	return out
}

// gsKey: (tag, payload) of an interface value.
func (x *Exec) gsKey(st *State, v *Val) (string, string) {
	if v.K != KIface {
		panic(unsupported("ghost set element that is not an interface value"))
	}
	if v.box != nil {
		w, ok := x.gsEncodable(v.boxT)
		if !ok {
			panic(unsupported("ghost set element type %s", v.boxT))
		}
		return x.tagOf(v.boxT), gsPad(x.flatten(st, v.box), w)
	}
	tag, ref := v.E[0].S, v.E[1].S
	pay := bvConst(big.NewInt(0), gsBits)
	for _, t := range x.gsCandidates() {
		w, _ := x.gsEncodable(t)
		lv := x.load(st, &Ptr{Kind: PHeap, Ref: ref, Root: t})
		pay = ite(eq(tag, x.tagOf(t)), gsPad(x.flatten(st, lv), w), pay)
	}
	return tag, x.sc.defineB(x, "gskey", bvSort(gsBits), pay)
}

// gsBoxAt writes, for every candidate type, the payload's bits into the object ref (a fresh object),
// so that a later type assertion on (tag, ref) reads the element's value back.
func (x *Exec) gsBoxAt(st *State, ref string, pay string) {
	for _, t := range x.gsCandidates() {
		w, _ := x.gsEncodable(t)
		ls := x.leaves(t)
		hi := w
		for _, l := range ls {
			var n int
			fmt.Sscanf(l.Sort, "(_ BitVec %d)", &n)
			bits := fmt.Sprintf("((_ extract %d %d) %s)", hi-1, hi-n, pay)
			hi -= n
			key := "H|" + typeKey(t) + "|" + l.Path
			ci := x.hInfo(l)
			h := x.heapSym(st, key, ci)
			x.setHeap(st, key, ci, sto(x.use(h), ref, bits))
		}
	}
}

func (x *Exec) gsCandidateKeys() []string {
	var out []string
	for _, t := range x.gsCandidates() {
		out = append(out, x.keysUnder("H", t, nil)...)
	}
	return out
}

type gsState struct {
	hk, ck   string
	hci, cci compInfo
	has, card string
}

func (x *Exec) gsGet(st *State, fam string) *gsState {
	g := &gsState{}
	g.hk, g.ck = x.gsKeys(fam)
	g.hci, g.cci = x.keyInfo[g.hk], x.keyInfo[g.ck]
	g.has = x.use(x.heapSym(st, g.hk, g.hci))
	g.card = x.use(x.heapSym(st, g.ck, g.cci))
	return g
}

func (x *Exec) gsSetHas(st *State, g *gsState, obj, tag, pay, val string) {
	inner := sel(g.has, obj)
	x.setHeap(st, g.hk, g.hci, sto(g.has, obj, sto(inner, tag, sto(sel(inner, tag), pay, val))))
	g.has = x.use(x.heapSym(st, g.hk, g.hci))
}

func (x *Exec) gsSetCard(st *State, g *gsState, obj, val string) {
	x.setHeap(st, g.ck, g.cci, sto(g.card, obj, val))
	g.card = x.use(x.heapSym(st, g.ck, g.cci))
}

// gsWF: facts every real set satisfies, stated for owner obj under the current path condition.
func (x *Exec) gsWF(st *State, g *gsState, obj string) {
	c := sel(g.card, obj)
	wt := x.sc.declare("gswt", "Int")
	wp := x.sc.declare("gswp", bvSort(gsBits))
	gd := x.guard(st)
	x.sc.assume(implies(gd, "(>= "+c+" 0)"))
	x.sc.assume(implies(gd, implies("(> "+c+" 0)", sel(sel(sel(g.has, obj), wt), wp))))
	if x.sc.binder == 0 {
		x.sc.emit("(assert (=> %s (=> (= %s 0) (forall ((t Int) (p %s)) (not (select (select (select %s %s) t) p))))))", gd, c, bvSort(gsBits), g.has, obj)
	}
}

func gsRecv(x *Exec, st *State, v *Val) string {
	if v.K != KIface {
		panic(unsupported("golang-set receiver"))
	}
	x.materialize(st, v)
	return v.E[1].S
}

func mSetAdd(x *Exec, st *State, a []*Val, s *types.Signature, p token.Pos) *Val {
	obj := gsRecv(x, st, a[0])
	g := x.gsGet(st, "set")
	tag, pay := x.gsKey(st, a[1])
	was := x.sc.defineB(x, "gswas", "Bool", sel(sel(sel(g.has, obj), tag), pay))
	c := sel(g.card, obj)
	x.gsSetHas(st, g, obj, tag, pay, "true")
	x.gsSetCard(st, g, obj, ite(was, c, "(+ "+c+" 1)"))
	return scalar(types.Typ[types.Bool], not(was), "Bool")
}

func mSetRemove(x *Exec, st *State, a []*Val, s *types.Signature, p token.Pos) *Val {
	obj := gsRecv(x, st, a[0])
	g := x.gsGet(st, "set")
	tag, pay := x.gsKey(st, a[1])
	was := x.sc.defineB(x, "gswas", "Bool", sel(sel(sel(g.has, obj), tag), pay))
	c := sel(g.card, obj)
	x.gsSetHas(st, g, obj, tag, pay, "false")
	x.gsSetCard(st, g, obj, ite(was, "(- "+c+" 1)", c))
	return nil
}

func mSetCardinality(x *Exec, st *State, a []*Val, s *types.Signature, p token.Pos) *Val {
	obj := gsRecv(x, st, a[0])
	g := x.gsGet(st, "set")
	x.gsWF(st, g, obj)
	return scalar(types.Typ[types.Int], x.intAsGo(sel(g.card, obj)), x.sc.intSort())
}

func mSetPop(x *Exec, st *State, a []*Val, s *types.Signature, p token.Pos) *Val {
	obj := gsRecv(x, st, a[0])
	g := x.gsGet(st, "set")
	x.gsWF(st, g, obj)
	c := sel(g.card, obj)
	tag := x.sc.declare("gspt", "Int")
	// the popped element: for each candidate element type a fresh value of that type (so that the
	// key is syntactically the key of a value of that type); an arbitrary key otherwise
	pay := x.sc.declare("gspp", bvSort(gsBits))
	ref := x.alloc(st)
	for _, t := range x.gsCandidates() {
		w, _ := x.gsEncodable(t)
		var terms []string
		for _, l := range x.leaves(t) {
			v := x.sc.declare("gspv", l.Sort)
			terms = append(terms, v)
			key := "H|" + typeKey(t) + "|" + l.Path
			ci := x.hInfo(l)
			h := x.heapSym(st, key, ci)
			x.setHeap(st, key, ci, sto(x.use(h), ref, v))
		}
		pay = ite(eq(tag, x.tagOf(t)), gsPad(terms, w), pay)
	}
	pay = x.sc.defineB(x, "gspk", bvSort(gsBits), pay)
	ne := x.sc.defineB(x, "gsne", "Bool", "(> "+c+" 0)")
	gd := x.guard(st)
	x.sc.assume(implies(gd, implies(ne, and(sel(sel(sel(g.has, obj), tag), pay), "(> "+tag+" 0)"))))
	inner := sel(g.has, obj)
	x.setHeap(st, g.hk, g.hci, sto(g.has, obj, sto(inner, tag, sto(sel(inner, tag), pay, and(not(ne), sel(sel(inner, tag), pay))))))
	x.setHeap(st, g.ck, g.cci, sto(g.card, obj, ite(ne, "(- "+c+" 1)", c)))
	return &Val{K: KIface, T: s.Results().At(0).Type(), E: []*Val{scalar(nil, ite(ne, tag, "0"), "Int"), scalar(nil, ite(ne, ref, "0"), "Int")}}
}

const gsNewMax = 2

// NewSet(items...): a fresh, otherwise empty set holding the items (at most gsNewMax of them, an
// obligation at the call site).
func mSetNew(x *Exec, st *State, a []*Val, s *types.Signature, p token.Pos) *Val {
	ref := x.alloc(st)
	g := x.gsGet(st, "set")
	x.setHeap(st, g.hk, g.hci, sto(g.has, ref, x.constArray("Int", "(Array "+bvSort(gsBits)+" Bool)", x.constArray(bvSort(gsBits), "Bool", "false"))))
	x.setHeap(st, g.ck, g.cci, sto(g.card, ref, "0"))
	g = x.gsGet(st, "set")
	sl := a[0]
	if sl.K == KSlice {
		n := sl.E[2].S
		x.oblige(st, "model", "", fmt.Sprintf("NewSet model: at most %d initial elements", gsNewMax), x.sc.iLe(n, x.sc.iConst(gsNewMax)), p)
		et := sl.T.Underlying().(*types.Slice).Elem()
		for i := 0; i < gsNewMax; i++ {
			in := x.sc.iLt(x.sc.iConst(int64(i)), n)
			if in == "false" {
				continue
			}
			abs := x.sc.iAdd(sl.E[1].S, x.sc.iConst(int64(i)))
			ev := x.load(st, &Ptr{Kind: PElem, Ref: sl.E[0].S, Idx: abs, Root: et})
			tag, pay := x.gsKey(st, ev)
			was := sel(sel(sel(g.has, ref), tag), pay)
			c := sel(g.card, ref)
			inner := sel(g.has, ref)
			x.setHeap(st, g.hk, g.hci, sto(g.has, ref, sto(inner, tag, sto(sel(inner, tag), pay, or(in, was)))))
			x.setHeap(st, g.ck, g.cci, sto(g.card, ref, ite(and(in, not(was)), "(+ "+c+" 1)", c)))
			g = x.gsGet(st, "set")
		}
	}
	return &Val{K: KIface, T: s.Results().At(0).Type(), E: []*Val{scalar(nil, x.tagOf(types.Typ[types.UnsafePointer]), "Int"), scalar(nil, ref, "Int")}}
}

var gsModelTable = map[string]modelFn{
		"(github.com/deckarep/golang-set.Set).Add":         mSetAdd,
		"(github.com/deckarep/golang-set.Set).Remove":      mSetRemove,
		"(github.com/deckarep/golang-set.Set).Cardinality": mSetCardinality,
		"(github.com/deckarep/golang-set.Set).Pop":         mSetPop,
		"(github.com/deckarep/golang-set.Set).String":      mFreshPure,
		"github.com/deckarep/golang-set.NewSet":            mSetNew,
}

// gsModelWrites: static write set of the golang-set model functions.
func (x *Exec) gsModelWrites(key string, ws *WriteSet) bool {
	if !strings.Contains(key, "github.com/deckarep/golang-set") {
		return false
	}
	name := key[strings.LastIndex(key, ".")+1:]
	switch name {
	case "Add", "Remove", "NewSet", "Pop":
		hk, ck := x.gsKeys("set")
		ws.keys[hk], ws.keys[ck] = true, true
		if name == "Pop" {
			for _, k := range x.gsCandidateKeys() {
				ws.keys[k] = true
			}
		}
	}
	return true
}
