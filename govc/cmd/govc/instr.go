package main

import (
	"fmt"
	"go/token"
	"go/types"
	"math/big"
	"strings"

	"golang.org/x/tools/go/ssa"
)

func (x *Exec) execInstr(f *frame, ins ssa.Instruction, st *State) {
	switch v := ins.(type) {
	case *ssa.Alloc:
		f.env[v] = x.doAlloc(f, v, st)
	case *ssa.Store:
		p := x.val(f, v.Addr)
		x.nilCheck(st, p, "store", v.Pos())
		x.store(st, p.P, x.retype(x.val(f, v.Val), typeAtPath(ptrRootAt(p.P), nil)))
	case *ssa.UnOp:
		f.env[v] = x.unop(f, v, st)
	case *ssa.BinOp:
		f.env[v] = x.binop(st, v.Op, x.val(f, v.X), x.val(f, v.Y), v.X.Type(), v.Y.Type(), v.Type(), v.Pos())
	case *ssa.FieldAddr:
		p := x.val(f, v.X)
		x.nilCheck(st, p, "field "+fieldName(v), v.Pos())
		np := *p.P
		np.Path = append(append([]int(nil), p.P.Path...), v.Field)
		f.env[v] = &Val{K: KPtr, T: v.Type(), P: &np}
	case *ssa.Field:
		s := x.val(f, v.X)
		if s.K != KTuple {
			panic(unsupported("field of non-struct value"))
		}
		f.env[v] = s.E[v.Field]
	case *ssa.IndexAddr:
		f.env[v] = x.indexAddr(f, v, st)
	case *ssa.Index:
		f.env[v] = x.index(f, v, st)
	case *ssa.Extract:
		t := x.val(f, v.Tuple)
		f.env[v] = t.E[v.Index]
	case *ssa.Slice:
		f.env[v] = x.sliceOp(f, v, st)
	case *ssa.MakeSlice:
		f.env[v] = x.makeSlice(st, v.Type(), x.val(f, v.Len), x.val(f, v.Cap), v.Pos())
	case *ssa.MakeMap:
		f.env[v] = x.makeMap(st, v.Type())
	case *ssa.MakeChan:
		ref := x.alloc(st)
		f.env[v] = scalar(v.Type(), ref, "Int")
	case *ssa.MakeClosure:
		var bs []*Val
		for _, b := range v.Bindings {
			bs = append(bs, x.val(f, b))
		}
		f.env[v] = &Val{K: KFunc, T: v.Type(), Fn: &FuncVal{Fn: v.Fn.(*ssa.Function), Bindings: bs}}
	case *ssa.MakeInterface:
		f.env[v] = x.makeIface(st, x.val(f, v.X), v.X.Type(), v.Type())
	case *ssa.ChangeInterface:
		c := *x.val(f, v.X)
		c.T = v.Type()
		f.env[v] = &c
	case *ssa.ChangeType:
		f.env[v] = x.retype(x.val(f, v.X), v.Type())
	case *ssa.Convert:
		f.env[v] = x.convert(st, x.val(f, v.X), v.X.Type(), v.Type())
	case *ssa.TypeAssert:
		f.env[v] = x.typeAssert(st, v, x.val(f, v.X))
	case *ssa.Lookup:
		f.env[v] = x.lookup(f, v, st)
	case *ssa.MapUpdate:
		m := x.val(f, v.Map)
		x.oblige(st, "nil", "", "map write", not(eq(m.S, "0")), v.Pos())
		x.mapUpdate(st, v.Map.Type(), m.S, x.val(f, v.Key), x.val(f, v.Value))
	case *ssa.Call:
		r := x.call(f, v, &v.Call, st, v.Pos())
		if r != nil {
			f.env[v] = r
		} else {
			f.env[v] = &Val{K: KTuple, T: v.Type()}
		}
	case *ssa.Go:
		x.goStmt(f, v, st)
	case *ssa.Defer:
		x.deferStmt(f, v, st)
	case *ssa.Send:
		x.sendStmt(f, v, st)
	case *ssa.Select:
		f.env[v] = x.selectStmt(f, v, st)
	case *ssa.Range:
		f.env[v] = scalar(v.Type(), "0", "Int")
		x.warn("range over map/string in %s: iteration is havocked", f.fn)
	case *ssa.Next:
		// (ok bool, k K, v V): unconstrained
		f.env[v] = x.freshVal(v.Type(), "next")
	default:
		panic(unsupported("instruction %T in %s", ins, f.fn))
	}
}

func fieldName(v *ssa.FieldAddr) string {
	st := v.X.Type().Underlying().(*types.Pointer).Elem().Underlying().(*types.Struct)
	return st.Field(v.Field).Name()
}

func ptrRootAt(p *Ptr) types.Type {
	switch p.Kind {
	case PCell:
		return typeAtPath(p.Cell.T, p.Path)
	default:
		return typeAtPath(p.Root, p.Path)
	}
}

// retype gives a value the static type t (named/unnamed conversions that keep representation).
func (x *Exec) retype(v *Val, t types.Type) *Val {
	if v.T == t {
		return v
	}
	c := *v
	c.T = t
	if v.K == KTuple {
		if st, ok := t.Underlying().(*types.Struct); ok && len(v.E) == st.NumFields() {
			c.E = make([]*Val, len(v.E))
			for i, e := range v.E {
				c.E[i] = x.retype(e, st.Field(i).Type())
			}
		}
	}
	if v.K == KPtr && v.P.Kind == PHeap && len(v.P.Path) == 0 {
		if pt, ok := t.Underlying().(*types.Pointer); ok {
			np := *v.P
			np.Root = pt.Elem()
			c.P = &np
		}
	}
	return &c
}

func (x *Exec) nilCheck(st *State, p *Val, what string, pos token.Pos) {
	if p.K != KPtr {
		panic(unsupported("dereference of non-pointer value %s", p))
	}
	if p.P.Kind == PHeap && len(p.P.Path) == 0 {
		if x.isFreshRef(p.P.Ref) {
			return
		}
		x.oblige(st, "nil", "", what, not(eq(p.P.Ref, "0")), pos)
	}
}

func (x *Exec) isFreshRef(r string) bool {
	if strings.HasPrefix(r, "g") && strings.HasSuffix(r, "_ref") {
		return true
	}
	// global refs are small positive literals
	if len(r) > 0 && r[0] >= '1' && r[0] <= '9' && !strings.ContainsAny(r, " (") {
		return true
	}
	return false
}

func (x *Exec) doAlloc(f *frame, v *ssa.Alloc, st *State) *Val {
	t := v.Type().(*types.Pointer).Elem()
	if at, ok := t.Underlying().(*types.Array); ok {
		ref := x.alloc(st)
		for _, l := range x.leaves(at.Elem()) {
			key := "E|" + typeKey(at.Elem()) + "|" + l.Path
			ci := x.eInfo(l)
			h := x.heapSym(st, key, ci)
			x.setHeap(st, key, ci, sto(x.use(h), ref, x.constArray(x.sc.intSort(), l.Sort, x.zeroOfSort(l.Sort))))
		}
		return &Val{K: KPtr, T: v.Type(), P: &Ptr{Kind: PHeap, Ref: ref, Root: t}}
	}
	_, isFunc := t.Underlying().(*types.Signature)
	if !v.Heap || (isFunc && funcCellOnly(v)) || x.P.allocLocal(v) {
		c := f.cells[v]
		if c == nil {
			c = x.newCell(t, v.Comment)
			f.cells[v] = c
		}
		st.cells[c] = x.zero(t)
		return &Val{K: KPtr, T: v.Type(), P: &Ptr{Kind: PCell, Cell: c}}
	}
	ref := x.alloc(st)
	for _, l := range x.leaves(t) {
		key := "H|" + typeKey(t) + "|" + l.Path
		ci := x.hInfo(l)
		h := x.heapSym(st, key, ci)
		x.setHeap(st, key, ci, sto(x.use(h), ref, x.zeroOfSort(l.Sort)))
	}
	return &Val{K: KPtr, T: v.Type(), P: &Ptr{Kind: PHeap, Ref: ref, Root: t}}
}

func (x *Exec) constArray(idx, elem, v string) string {
	return fmt.Sprintf("((as const (Array %s %s)) %s)", idx, elem, v)
}

// funcCellOnly: a heap cell holding a func value that is only stored to, loaded from, or captured.
func funcCellOnly(a *ssa.Alloc) bool {
	for _, r := range *a.Referrers() {
		switch u := r.(type) {
		case *ssa.Store:
			if u.Val == ssa.Value(a) {
				return false
			}
		case *ssa.UnOp, *ssa.DebugRef, *ssa.MakeClosure:
		default:
			return false
		}
	}
	return true
}

func (x *Exec) unop(f *frame, v *ssa.UnOp, st *State) *Val {
	a := x.val(f, v.X)
	switch v.Op {
	case token.MUL:
		if g, ok := v.X.(*ssa.Global); ok {
			if cv := x.constGlobal(g, st); cv != nil {
				return cv
			}
		}
		x.nilCheck(st, a, "load", v.Pos())
		return x.retype(x.load(st, a.P), v.Type())
	case token.NOT:
		return scalar(v.Type(), not(a.S), "Bool")
	case token.SUB:
		if a.Srt == "Int" {
			return scalar(v.Type(), "(- "+a.S+")", "Int")
		}
		if strings.HasPrefix(a.Srt, "(_ Float") {
			return scalar(v.Type(), "(fp.neg "+a.S+")", a.Srt)
		}
		return scalar(v.Type(), "(bvneg "+a.S+")", a.Srt)
	case token.XOR:
		if a.Srt == "Int" {
			panic(unsupported("bitwise complement on mathematical int (use mode bv)"))
		}
		return scalar(v.Type(), "(bvnot "+a.S+")", a.Srt)
	case token.ARROW:
		x.blockingOp(st, "chan receive", v.Pos())
		et := v.X.Type().Underlying().(*types.Chan).Elem()
		if v.CommaOk {
			r := &Val{K: KTuple, T: v.Type()}
			r.E = []*Val{x.freshVal(et, "recv"), x.freshVal(types.Typ[types.Bool], "recvok")}
			x.logChanOp(st, "recv", r.E[1].S, a, r.E[0])
			return r
		}
		rv := x.freshVal(et, "recv")
		x.logChanOp(st, "recv", "true", a, rv)
		return rv
	}
	panic(unsupported("unary %s", v.Op))
}

// ---- integers ----

func (x *Exec) cmp(op token.Token, a, b *Val, t types.Type) string {
	if a.Srt == "Int" {
		o := map[token.Token]string{token.LSS: "<", token.LEQ: "<=", token.GTR: ">", token.GEQ: ">="}[op]
		return "(" + o + " " + a.S + " " + b.S + ")"
	}
	if strings.HasPrefix(a.Srt, "(_ Float") {
		o := map[token.Token]string{token.LSS: "fp.lt", token.LEQ: "fp.leq", token.GTR: "fp.gt", token.GEQ: "fp.geq"}[op]
		return "(" + o + " " + a.S + " " + b.S + ")"
	}
	if a.Srt == "Str" {
		panic(unsupported("string ordering"))
	}
	var o string
	if isSigned(t) {
		o = map[token.Token]string{token.LSS: "bvslt", token.LEQ: "bvsle", token.GTR: "bvsgt", token.GEQ: "bvsge"}[op]
	} else {
		o = map[token.Token]string{token.LSS: "bvult", token.LEQ: "bvule", token.GTR: "bvugt", token.GEQ: "bvuge"}[op]
	}
	return "(" + o + " " + a.S + " " + b.S + ")"
}

func (x *Exec) valEq(st *State, a, b *Val) string {
	switch a.K {
	case KScalar:
		if a.Srt == "" {
			return "true"
		}
		if strings.HasPrefix(a.Srt, "(_ Float") {
			return "(fp.eq " + a.S + " " + b.S + ")"
		}
		return eq(a.S, b.S)
	case KTuple:
		var cs []string
		for i := range a.E {
			cs = append(cs, x.valEq(st, a.E[i], b.E[i]))
		}
		return and(cs...)
	case KIface:
		// comparison with the nil interface: the type tag decides
		if b.K == KIface && b.E[0].S == "0" {
			return eq(a.E[0].S, "0")
		}
		if a.E[0].S == "0" {
			return eq(b.E[0].S, "0")
		}
		x.materialize(st, a)
		x.materialize(st, b)
		return and(eq(a.E[0].S, b.E[0].S), eq(a.E[1].S, b.E[1].S))
	case KSlice:
		// only comparison with nil is legal Go
		if b.K == KSlice {
			if b.E[0].S == "0" {
				return eq(a.E[0].S, "0")
			}
			if a.E[0].S == "0" {
				return eq(b.E[0].S, "0")
			}
		}
		panic(unsupported("slice comparison"))
	case KPtr:
		if a.P.Kind == PHeap && b.K == KPtr && b.P.Kind == PHeap && len(a.P.Path) == 0 && len(b.P.Path) == 0 {
			return eq(a.P.Ref, b.P.Ref)
		}
		if b.K == KPtr && b.P.Kind == PHeap && b.P.Ref == "0" {
			return "false"
		}
		if a.P.Kind == PHeap && a.P.Ref == "0" {
			return "false"
		}
		panic(unsupported("pointer comparison of interior pointers"))
	case KFunc:
		// only f == nil is legal
		if a.Fn != nil && a.Fn.Fn != nil {
			return "false"
		}
		if b.K == KFunc && b.Fn != nil && b.Fn.Fn != nil {
			return "false"
		}
		fa, fb := x.flatten(st, a), x.flatten(st, b)
		return eq(fa[0], fb[0])
	}
	panic("valEq")
}

func (x *Exec) binop(st *State, op token.Token, a, b *Val, ta, tb, tr types.Type, pos token.Pos) *Val {
	r := x.binop0(st, op, a, b, ta, tb, tr, pos)
	if x.bvArith && x.sc.binder == 0 && !x.sc.bvMode && strings.HasPrefix(a.Srt, "(_ BitVec") && !isSigned(ta) && b.Srt == a.Srt {
		x.arithLemma(op, a, b, r)
	}
	return r
}

// natOf names the natural-number value of an unsigned bit-vector term and states its range.
func (x *Exec) natOf(v *Val) string {
	var n int
	fmt.Sscanf(v.Srt, "(_ BitVec %d)", &n)
	if lit, ok := isLit(v.S); ok {
		return fmt.Sprint(lit)
	}
	x.sc.bridge[n] = true
	t := fmt.Sprintf("(nat%d %s)", n, v.S)
	key := fmt.Sprintf("arith|%d|%s", n, v.S)
	if !x.natDone[key] {
		x.natDone[key] = true
		pow := new(big.Int).Lsh(big.NewInt(1), uint(n)).String()
		x.sc.assume(and("(<= 0 "+t+")", "(< "+t+" "+pow+")"))
		x.sc.assume(eq(fmt.Sprintf("(bvof%d %s)", n, t), v.S))
	}
	return t
}

// arithLemma: instances relating unsigned bit-vector arithmetic to integer arithmetic (valid facts;
// the wrap-around cases are excluded by their guards).
func (x *Exec) arithLemma(op token.Token, a, b, r *Val) {
	var n int
	fmt.Sscanf(a.Srt, "(_ BitVec %d)", &n)
	pow := new(big.Int).Lsh(big.NewInt(1), uint(n)).String()
	na, nb := x.natOf(a), x.natOf(b)
	switch op {
	case token.ADD:
		nr := x.natOf(r)
		x.sc.assume(implies("(< (+ "+na+" "+nb+") "+pow+")", eq(nr, "(+ "+na+" "+nb+")")))
	case token.SUB:
		nr := x.natOf(r)
		x.sc.assume(implies("(>= "+na+" "+nb+")", eq(nr, "(- "+na+" "+nb+")")))
	case token.MUL:
		_, la := isLit(a.S)
		_, lb := isLit(b.S)
		if la || lb {
			nr := x.natOf(r)
			x.sc.assume(implies("(< (* "+na+" "+nb+") "+pow+")", eq(nr, "(* "+na+" "+nb+")")))
		}
	case token.QUO:
		if _, lb := isLit(b.S); lb && nb != "0" {
			nr := x.natOf(r)
			x.sc.assume(eq(nr, "(div "+na+" "+nb+")"))
		}
	case token.LSS:
		x.sc.assume(eq(r.S, "(< "+na+" "+nb+")"))
	case token.LEQ:
		x.sc.assume(eq(r.S, "(<= "+na+" "+nb+")"))
	case token.GTR:
		x.sc.assume(eq(r.S, "(> "+na+" "+nb+")"))
	case token.GEQ:
		x.sc.assume(eq(r.S, "(>= "+na+" "+nb+")"))
	case token.EQL:
		x.sc.assume(eq(r.S, eq(na, nb)))
	case token.NEQ:
		x.sc.assume(eq(r.S, not(eq(na, nb))))
	}
}

func (x *Exec) binop0(st *State, op token.Token, a, b *Val, ta, tb, tr types.Type, pos token.Pos) *Val {
	switch op {
	case token.EQL:
		return scalar(tr, x.valEq(st, a, b), "Bool")
	case token.NEQ:
		return scalar(tr, not(x.valEq(st, a, b)), "Bool")
	case token.LSS, token.LEQ, token.GTR, token.GEQ:
		return scalar(tr, x.cmp(op, a, b, ta), "Bool")
	}
	srt := a.Srt
	switch {
	case srt == "Bool":
		switch op {
		case token.AND, token.LAND:
			return scalar(tr, and(a.S, b.S), "Bool")
		case token.OR, token.LOR:
			return scalar(tr, or(a.S, b.S), "Bool")
		}
	case srt == "Str":
		if op == token.ADD {
			r := "(strcat " + a.S + " " + b.S + ")"
			r = x.sc.defineB(x, "cat", "Str", r)
			if x.sc.binder == 0 {
				x.sc.assume(eq("(strlen "+r+")", x.sc.iAdd("(strlen "+a.S+")", "(strlen "+b.S+")")))
			}
			return scalar(tr, r, "Str")
		}
	case srt == "Int":
		var t string
		switch op {
		case token.ADD:
			t = x.sc.iAdd(a.S, b.S)
		case token.SUB:
			t = x.sc.iSub(a.S, b.S)
		case token.MUL:
			t = "(* " + a.S + " " + b.S + ")"
		case token.QUO:
			x.oblige(st, "div", "", "division", not(eq(b.S, "0")), pos)
			// Go truncates toward zero
			t = fmt.Sprintf("(ite (>= %s 0) (div %s %s) (- (div (- %s) %s)))", a.S, a.S, b.S, a.S, b.S)
			if isNonNegLit(a.S) {
				t = "(div " + a.S + " " + b.S + ")"
			}
		case token.REM:
			x.oblige(st, "div", "", "modulo", not(eq(b.S, "0")), pos)
			t = fmt.Sprintf("(ite (>= %s 0) (mod %s (abs %s)) (- (mod (- %s) (abs %s))))", a.S, a.S, b.S, a.S, b.S)
		default:
			panic(unsupported("operator %s on mathematical int (use mode bv)", op))
		}
		r := scalar(tr, x.sc.defineB(x, "i", "Int", t), "Int")
		if (op == token.ADD || op == token.SUB || op == token.MUL) && isGoInt(tr) {
			lo, hi := "(- 9223372036854775808)", "9223372036854775807"
			if !isSigned(tr) {
				lo, hi = "0", "18446744073709551615"
			}
			x.oblige(st, "ovf", "", "int "+op.String(), and("(<= "+lo+" "+r.S+")", "(<= "+r.S+" "+hi+")"), pos)
		}
		return r
	case strings.HasPrefix(srt, "(_ BitVec"):
		var n int
		fmt.Sscanf(srt, "(_ BitVec %d)", &n)
		signed := isSigned(ta)
		var t string
		switch op {
		case token.ADD:
			t = "(bvadd " + a.S + " " + b.S + ")"
		case token.SUB:
			t = "(bvsub " + a.S + " " + b.S + ")"
		case token.MUL:
			t = "(bvmul " + a.S + " " + b.S + ")"
		case token.QUO:
			x.oblige(st, "div", "", "division", not(eq(b.S, bvConst(big.NewInt(0), n))), pos)
			if signed {
				t = "(bvsdiv " + a.S + " " + b.S + ")"
			} else {
				t = "(bvudiv " + a.S + " " + b.S + ")"
			}
		case token.REM:
			x.oblige(st, "div", "", "modulo", not(eq(b.S, bvConst(big.NewInt(0), n))), pos)
			if signed {
				t = "(bvsrem " + a.S + " " + b.S + ")"
			} else {
				t = "(bvurem " + a.S + " " + b.S + ")"
			}
		case token.AND:
			t = "(bvand " + a.S + " " + b.S + ")"
		case token.OR:
			t = "(bvor " + a.S + " " + b.S + ")"
		case token.XOR:
			t = "(bvxor " + a.S + " " + b.S + ")"
		case token.AND_NOT:
			t = "(bvand " + a.S + " (bvnot " + b.S + "))"
		case token.SHL, token.SHR:
			cnt := x.shiftCount(b, tb, n)
			o := "bvshl"
			if op == token.SHR {
				o = "bvlshr"
				if signed {
					o = "bvashr"
				}
			}
			t = "(" + o + " " + a.S + " " + cnt + ")"
			if big := x.shiftTooBig(b, tb, n); big != "false" {
				fill := bvConst(bigZero, n)
				if op == token.SHR && signed {
					fill = "(bvashr " + a.S + " " + bvConst(bigInt(int64(n-1)), n) + ")"
				}
				t = ite(big, fill, t)
			}
		default:
			panic(unsupported("bit-vector operator %s", op))
		}
		return scalar(tr, x.sc.defineB(x, "b", srt, t), srt)
	case strings.HasPrefix(srt, "(_ FloatingPoint"):
		o := map[token.Token]string{token.ADD: "fp.add RNE", token.SUB: "fp.sub RNE", token.MUL: "fp.mul RNE", token.QUO: "fp.div RNE"}[op]
		if o == "" {
			panic(unsupported("float operator %s", op))
		}
		return scalar(tr, x.sc.defineB(x, "f", srt, "("+o+" "+a.S+" "+b.S+")"), srt)
	}
	panic(unsupported("binary %s on sort %s", op, srt))
}

var bigZero = big.NewInt(0)

func bigInt(n int64) *big.Int { return big.NewInt(n) }

func isNonNegLit(s string) bool {
	for _, c := range s {
		if c < '0' || c > '9' {
			return false
		}
	}
	return len(s) > 0
}

// shiftCount converts the shift count to the operand width n.
func (x *Exec) shiftCount(b *Val, tb types.Type, n int) string {
	if b.Srt == "Int" {
		x.sc.bridge[n] = true
		return fmt.Sprintf("(bvof%d %s)", n, b.S)
	}
	var m int
	fmt.Sscanf(b.Srt, "(_ BitVec %d)", &m)
	switch {
	case m == n:
		return b.S
	case m < n:
		return fmt.Sprintf("((_ zero_extend %d) %s)", n-m, b.S)
	default:
		return fmt.Sprintf("((_ extract %d 0) %s)", n-1, b.S)
	}
}

// shiftTooBig is the condition that the count does not fit the operand width representation.
func (x *Exec) shiftTooBig(b *Val, tb types.Type, n int) string {
	if b.Srt == "Int" {
		if isNonNegLit(b.S) {
			return "false"
		}
		return "(>= " + b.S + " " + fmt.Sprint(n) + ")"
	}
	var m int
	fmt.Sscanf(b.Srt, "(_ BitVec %d)", &m)
	if m <= n {
		return "false"
	}
	return "(bvuge " + b.S + " " + bvConst(bigInt(int64(n)), m) + ")"
}

// convert implements ssa.Convert.
func (x *Exec) convert(st *State, v *Val, from, to types.Type) *Val {
	fs, fok := x.scalarSort(from)
	ts, tok := x.scalarSort(to)
	if fok && tok {
		fnum := isNumeric(from)
		tnum := isNumeric(to)
		if fnum && tnum {
			r := scalar(to, x.sc.defineB(x, "cv", ts, x.convNum(v.S, fs, ts, isSigned(from), isSigned(to))), ts)
			x.bridgeLemmas(v.S, fs, r.S, ts, isSigned(from))
			return r
		}
		if fs == ts {
			return x.retype(v, to)
		}
		if ts == "Str" && fnum {
			return x.freshVal(to, "runestr")
		}
	}
	// string <-> []byte
	if _, ok := to.Underlying().(*types.Slice); ok && fok && fs == "Str" {
		r := x.freshVal(to, "bytes")
		x.sc.assume(eq(r.E[2].S, "(strlen "+v.S+")"))
		x.sc.assume(eq(r.E[1].S, x.sc.iConst(0)))
		return r
	}
	if _, ok := from.Underlying().(*types.Slice); ok && tok && ts == "Str" {
		r := x.freshVal(to, "str")
		x.sc.assume(eq("(strlen "+r.S+")", v.E[2].S))
		return r
	}
	if types.Identical(from.Underlying(), to.Underlying()) {
		return x.retype(v, to)
	}
	if _, ok := from.Underlying().(*types.Pointer); ok {
		return x.retype(v, to)
	}
	panic(unsupported("conversion %s -> %s", from, to))
}

func isNumeric(t types.Type) bool {
	b, ok := t.Underlying().(*types.Basic)
	return ok && b.Info()&types.IsNumeric != 0
}

func (x *Exec) convNum(s, fs, ts string, fsigned, tsigned bool) string {
	isBV := func(q string) (int, bool) {
		var n int
		if _, err := fmt.Sscanf(q, "(_ BitVec %d)", &n); err == nil {
			return n, true
		}
		return 0, false
	}
	fn, fbv := isBV(fs)
	tn, tbv := isBV(ts)
	ffp := strings.HasPrefix(fs, "(_ Float")
	tfp := strings.HasPrefix(ts, "(_ Float")
	switch {
	case fbv && tbv:
		switch {
		case fn == tn:
			return s
		case fn > tn:
			return fmt.Sprintf("((_ extract %d 0) %s)", tn-1, s)
		case fsigned:
			return fmt.Sprintf("((_ sign_extend %d) %s)", tn-fn, s)
		default:
			return fmt.Sprintf("((_ zero_extend %d) %s)", tn-fn, s)
		}
	case fbv && ts == "Int":
		x.sc.bridge[fn] = true
		if fsigned {
			return fmt.Sprintf("(ite (bvslt %s %s) (- (nat%d %s) %s) (nat%d %s))", s, bvConst(bigZero, fn), fn, s, new(big.Int).Lsh(big.NewInt(1), uint(fn)).String(), fn, s)
		}
		return fmt.Sprintf("(nat%d %s)", fn, s)
	case fs == "Int" && tbv:
		if lit, ok := isLit(s); ok && lit >= 0 {
			return bvConst(big.NewInt(lit), tn)
		}
		x.sc.bridge[tn] = true
		return fmt.Sprintf("(bvof%d %s)", tn, s)
	case fs == "Int" && ts == "Int":
		if fsigned && !tsigned {
			return "(ite (< " + s + " 0) (+ " + s + " 18446744073709551616) " + s + ")"
		}
		if !fsigned && tsigned {
			return "(ite (> " + s + " 9223372036854775807) (- " + s + " 18446744073709551616) " + s + ")"
		}
		return s
	case fbv && tfp:
		eb, sb := fpDims(ts)
		if fsigned {
			return fmt.Sprintf("((_ to_fp %d %d) RNE %s)", eb, sb, s)
		}
		return fmt.Sprintf("((_ to_fp_unsigned %d %d) RNE %s)", eb, sb, s)
	case ffp && tbv:
		if tsigned {
			return fmt.Sprintf("((_ fp.to_sbv %d) RTZ %s)", tn, s)
		}
		return fmt.Sprintf("((_ fp.to_ubv %d) RTZ %s)", tn, s)
	case ffp && tfp:
		eb, sb := fpDims(ts)
		return fmt.Sprintf("((_ to_fp %d %d) RNE %s)", eb, sb, s)
	case fs == "Int" && tfp:
		eb, sb := fpDims(ts)
		return fmt.Sprintf("((_ to_fp %d %d) RNE (to_real %s))", eb, sb, s)
	}
	panic(unsupported("numeric conversion %s -> %s", fs, ts))
}

func fpDims(s string) (int, int) {
	var e, m int
	fmt.Sscanf(s, "(_ FloatingPoint %d %d)", &e, &m)
	return e, m
}

// ---- slices, arrays ----

func (x *Exec) sliceElem(t types.Type) types.Type {
	switch u := t.Underlying().(type) {
	case *types.Slice:
		return u.Elem()
	case *types.Pointer:
		return u.Elem().Underlying().(*types.Array).Elem()
	case *types.Array:
		return u.Elem()
	}
	panic(unsupported("element type of %s", t))
}

func (x *Exec) inRange(i, lo, hi string) string {
	return and(x.sc.iLe(lo, i), x.sc.iLt(i, hi))
}

func (x *Exec) indexAddr(f *frame, v *ssa.IndexAddr, st *State) *Val {
	base := x.val(f, v.X)
	idx := x.toIndex(x.val(f, v.Index), v.Index.Type())
	switch base.K {
	case KSlice:
		x.oblige(st, "idx", "", "index", x.inRange(idx, x.sc.iConst(0), base.E[2].S), v.Pos())
		abs := x.sc.defineB(x, "ix", x.sc.intSort(), x.sc.iAdd(base.E[1].S, idx))
		return &Val{K: KPtr, T: v.Type(), P: &Ptr{Kind: PElem, Ref: base.E[0].S, Idx: abs, Root: x.sliceElem(v.X.Type())}}
	case KPtr:
		at := v.X.Type().Underlying().(*types.Pointer).Elem().Underlying().(*types.Array)
		x.nilCheck(st, base, "array index", v.Pos())
		x.oblige(st, "idx", "", "index", x.inRange(idx, x.sc.iConst(0), x.sc.iConst(at.Len())), v.Pos())
		if base.P.Kind == PHeap && len(base.P.Path) == 0 {
			return &Val{K: KPtr, T: v.Type(), P: &Ptr{Kind: PElem, Ref: base.P.Ref, Idx: idx, Root: at.Elem()}}
		}
		// array embedded in a struct or cell: constant index only
		if c, ok := v.Index.(*ssa.Const); ok {
			np := *base.P
			np.Path = append(append([]int(nil), base.P.Path...), int(c.Int64()))
			return &Val{K: KPtr, T: v.Type(), P: &np}
		}
		panic(unsupported("variable index into embedded array"))
	}
	panic(unsupported("IndexAddr on %s", base))
}

// toIndex converts an index value of any integer type to the Go-int sort.
func (x *Exec) toIndex(v *Val, t types.Type) string {
	I := x.sc.intSort()
	if v.Srt == I && (isGoInt(t) || x.sc.bvMode && bitWidth(t) == 64) {
		return v.S
	}
	return x.convNum(v.S, v.Srt, I, isSigned(t), true)
}

func (x *Exec) index(f *frame, v *ssa.Index, st *State) *Val {
	base := x.val(f, v.X)
	if base.K == KScalar && base.Srt == "Str" {
		idx := x.toIndex(x.val(f, v.Index), v.Index.Type())
		x.oblige(st, "idx", "", "string index", x.inRange(idx, x.sc.iConst(0), "(strlen "+base.S+")"), v.Pos())
		return scalar(v.Type(), "(strbyte "+base.S+" "+idx+")", bvSort(8))
	}
	if base.K == KTuple {
		if c, ok := v.Index.(*ssa.Const); ok {
			return base.E[c.Int64()]
		}
	}
	panic(unsupported("Index on %s", base))
}

func (x *Exec) sliceOp(f *frame, v *ssa.Slice, st *State) *Val {
	base := x.val(f, v.X)
	I := x.sc.intSort()
	get := func(e ssa.Value) string {
		if e == nil {
			return ""
		}
		return x.toIndex(x.val(f, e), e.Type())
	}
	lo, hi, mx := get(v.Low), get(v.High), get(v.Max)
	z := x.sc.iConst(0)
	if lo == "" {
		lo = z
	}
	switch base.K {
	case KSlice:
		if hi == "" {
			hi = base.E[2].S
		}
		capv := base.E[3].S
		lim := capv
		if mx != "" {
			lim = mx
			x.oblige(st, "slice", "", "slice max", x.sc.iLe(mx, capv), v.Pos())
		}
		x.oblige(st, "slice", "", "slice bounds", and(x.sc.iLe(z, lo), x.sc.iLe(lo, hi), x.sc.iLe(hi, lim)), v.Pos())
		r := &Val{K: KSlice, T: v.Type()}
		r.E = []*Val{base.E[0],
			scalar(nil, x.sc.defineB(x, "off", I, x.sc.iAdd(base.E[1].S, lo)), I),
			scalar(nil, x.sc.defineB(x, "len", I, x.sc.iSub(hi, lo)), I),
			scalar(nil, x.sc.defineB(x, "cap", I, x.sc.iSub(lim, lo)), I)}
		return r
	case KPtr:
		at := v.X.Type().Underlying().(*types.Pointer).Elem().Underlying().(*types.Array)
		n := x.sc.iConst(at.Len())
		if hi == "" {
			hi = n
		}
		lim := n
		if mx != "" {
			lim = mx
		}
		if base.P.Kind != PHeap || len(base.P.Path) != 0 {
			panic(unsupported("slice of embedded array"))
		}
		x.oblige(st, "slice", "", "slice bounds", and(x.sc.iLe(z, lo), x.sc.iLe(lo, hi), x.sc.iLe(hi, lim), x.sc.iLe(lim, n)), v.Pos())
		r := &Val{K: KSlice, T: v.Type()}
		r.E = []*Val{scalar(nil, base.P.Ref, "Int"), scalar(nil, lo, I), scalar(nil, x.sc.defineB(x, "len", I, x.sc.iSub(hi, lo)), I), scalar(nil, x.sc.defineB(x, "cap", I, x.sc.iSub(lim, lo)), I)}
		return r
	case KScalar:
		if base.Srt == "Str" {
			if hi == "" {
				hi = "(strlen " + base.S + ")"
			}
			x.oblige(st, "slice", "", "substring bounds", and(x.sc.iLe(z, lo), x.sc.iLe(lo, hi), x.sc.iLe(hi, "(strlen "+base.S+")")), v.Pos())
			r := x.freshVal(v.Type(), "substr")
			x.sc.assume(implies(st.pc, eq("(strlen "+r.S+")", x.sc.iSub(hi, lo))))
			return r
		}
	}
	panic(unsupported("Slice on %s", base))
}

func (x *Exec) makeSlice(st *State, t types.Type, ln, cp *Val, pos token.Pos) *Val {
	I := x.sc.intSort()
	l := x.toIndexS(ln)
	c := x.toIndexS(cp)
	x.oblige(st, "slice", "", "makeslice", and(x.sc.iLe(x.sc.iConst(0), l), x.sc.iLe(l, c)), pos)
	ref := x.alloc(st)
	et := t.Underlying().(*types.Slice).Elem()
	for _, lf := range x.leaves(et) {
		key := "E|" + typeKey(et) + "|" + lf.Path
		ci := x.eInfo(lf)
		h := x.heapSym(st, key, ci)
		x.setHeap(st, key, ci, sto(x.use(h), ref, x.constArray(I, lf.Sort, x.zeroOfSort(lf.Sort))))
	}
	return &Val{K: KSlice, T: t, E: []*Val{scalar(nil, ref, "Int"), scalar(nil, x.sc.iConst(0), I), scalar(nil, l, I), scalar(nil, c, I)}}
}

func (x *Exec) toIndexS(v *Val) string {
	if v.Srt == x.sc.intSort() {
		return v.S
	}
	return x.convNum(v.S, v.Srt, x.sc.intSort(), isSigned(v.T), true)
}

// ---- interfaces ----

func (x *Exec) tagOf(t types.Type) string {
	k := typeKey(t)
	id, ok := x.tags[k]
	if !ok {
		id = len(x.tags) + 1
		x.tags[k] = id
	}
	return fmt.Sprint(id)
}

// makeIface boxes lazily: the concrete value is kept beside the (tag, ref) pair until it escapes.
func (x *Exec) makeIface(st *State, v *Val, from types.Type, to types.Type) *Val {
	if _, ok := from.Underlying().(*types.Interface); ok {
		c := *v
		c.T = to
		return &c
	}
	r := &Val{K: KIface, T: to, E: []*Val{scalar(nil, x.tagOf(from), "Int"), scalar(nil, "", "Int")}}
	r.Fn = nil
	r.P = nil
	r.box = v
	r.boxT = from
	if v.K == KPtr && v.P.Kind == PHeap && len(v.P.Path) == 0 {
		r.E[1] = scalar(nil, v.P.Ref, "Int")
		// a typed nil pointer in an interface is a non-nil interface; keep tag
	}
	return r
}

// materialize makes sure an interface value has a heap reference for its payload.
func (x *Exec) materialize(st *State, v *Val) {
	if v.K != KIface || v.E[1].S != "" {
		return
	}
	if x.sc.binder > 0 {
		panic(unsupported("boxing under a quantifier"))
	}
	t := v.boxT
	ref := x.alloc(st)
	ls := x.leaves(t)
	ts := x.flatten(st, v.box)
	for i, l := range ls {
		key := "H|" + typeKey(t) + "|" + l.Path
		ci := x.hInfo(l)
		h := x.heapSym(st, key, ci)
		x.setHeap(st, key, ci, sto(x.use(h), ref, ts[i]))
	}
	v.E[1] = scalar(nil, ref, "Int")
}

func (x *Exec) typeAssert(st *State, v *ssa.TypeAssert, a *Val) *Val {
	if a.K != KIface {
		panic(unsupported("type assertion on non-interface value"))
	}
	at := v.AssertedType
	if _, isIface := at.Underlying().(*types.Interface); isIface {
		ok := x.sc.declare("implements", "Bool")
		x.sc.assume(implies(eq(a.E[0].S, "0"), not(ok)))
		if types.Identical(at, v.X.Type()) || types.AssignableTo(v.X.Type(), at) {
			x.sc.assume(eq(ok, not(eq(a.E[0].S, "0"))))
		}
		r := *a
		r.T = at
		if v.CommaOk {
			return &Val{K: KTuple, T: v.Type(), E: []*Val{&r, scalar(types.Typ[types.Bool], ok, "Bool")}}
		}
		x.oblige(st, "tassert", "", "interface assertion", ok, v.Pos())
		return &r
	}
	var okT string
	var val *Val
	if a.box != nil {
		if types.Identical(a.boxT, at) {
			okT = "true"
			val = a.box
		} else {
			okT = "false"
			val = x.zero(at)
		}
	} else {
		okT = eq(a.E[0].S, x.tagOf(at))
		if pt, isPtr := at.Underlying().(*types.Pointer); isPtr {
			val = &Val{K: KPtr, T: at, P: &Ptr{Kind: PHeap, Ref: a.E[1].S, Root: pt.Elem()}}
		} else {
			val = x.load(st, &Ptr{Kind: PHeap, Ref: a.E[1].S, Root: at})
		}
	}
	if v.CommaOk {
		z := x.zero(at)
		mv := x.mergeVals([]string{okT, not(okT)}, []*Val{val, z})
		return &Val{K: KTuple, T: v.Type(), E: []*Val{mv, scalar(types.Typ[types.Bool], okT, "Bool")}}
	}
	x.oblige(st, "tassert", "", "type assertion to "+types.TypeString(at, types.RelativeTo(x.P.tpkg)), okT, v.Pos())
	return val
}

// ---- maps ----

func (x *Exec) mapKeySort(mt *types.Map) string {
	ls := x.leaves(mt.Key())
	if len(ls) == 1 {
		return ls[0].Sort
	}
	w := 0
	for _, l := range ls {
		var n int
		if _, err := fmt.Sscanf(l.Sort, "(_ BitVec %d)", &n); err != nil {
			panic(unsupported("map key type %s", mt.Key()))
		}
		w += n
	}
	return bvSort(w)
}

func (x *Exec) mapKeyTerm(st *State, mt *types.Map, k *Val) string {
	if ii, ok := mt.Key().Underlying().(*types.Interface); ok && ii != nil {
		x.materialize(st, k)
	}
	ts := x.flatten(st, k)
	if len(ts) == 1 {
		return ts[0]
	}
	if _, ok := mt.Key().Underlying().(*types.Interface); ok {
		panic(unsupported("interface-keyed map"))
	}
	// A multi-field key is packed by an uninterpreted function that equals the concatenation of
	// the fields: ground keys then keep the shape pack(f1, .., fn) that quantified invariants over
	// struct-typed keys use as their trigger (a bare concat is flattened by the solvers' rewriters
	// when a field is itself a concatenation).
	ls := x.leaves(mt.Key())
	name := "pack_" + sanitize(typeKey(mt.Key()))
	if !x.sc.decl[name] {
		x.sc.decl[name] = true
		var sorts, params, names []string
		for i, l := range ls {
			sorts = append(sorts, l.Sort)
			params = append(params, fmt.Sprintf("(a%d %s)", i, l.Sort))
			names = append(names, fmt.Sprintf("a%d", i))
		}
		x.sc.ufDecls = append(x.sc.ufDecls,
			fmt.Sprintf("(declare-fun %s (%s) %s)", name, strings.Join(sorts, " "), x.mapKeySort(mt)),
			fmt.Sprintf("(assert (forall (%s) (! (= (%s %s) (concat %s)) :pattern ((%s %s)))))", strings.Join(params, " "), name, strings.Join(names, " "), strings.Join(names, " "), name, strings.Join(names, " ")))
	}
	return "(" + name + " " + strings.Join(ts, " ") + ")"
}

func (x *Exec) mapComps(st *State, t types.Type) (mt *types.Map, ks string, pres *HeapSym, presKey string, presCI compInfo, card *HeapSym, cardKey string, cardCI compInfo) {
	mt = t.Underlying().(*types.Map)
	ks = x.mapKeySort(mt)
	presKey = "Mp|" + typeKey(mt)
	presCI = compInfo{sort: "(Array Int (Array " + ks + " Bool))", dim: 0}
	pres = x.heapSym(st, presKey, presCI)
	cardKey = "Mc|" + typeKey(mt)
	cardCI = compInfo{sort: "(Array Int " + x.sc.intSort() + ")", dim: 0}
	card = x.heapSym(st, cardKey, cardCI)
	return
}

func (x *Exec) mvInfo(ks string, l Leaf) compInfo {
	return compInfo{sort: "(Array Int (Array " + ks + " " + l.Sort + "))", ref: l.Ref, dim: 2}
}

func (x *Exec) makeMap(st *State, t types.Type) *Val {
	mt, ks, pres, pk, pci, card, ck, cci := x.mapComps(st, t)
	ref := x.alloc(st)
	x.setHeap(st, pk, pci, sto(x.use(pres), ref, x.constArray(ks, "Bool", "false")))
	x.setHeap(st, ck, cci, sto(x.use(card), ref, x.sc.iConst(0)))
	_ = mt
	return scalar(t, ref, "Int")
}

func (x *Exec) mapCardAxiom(st *State, presArr, cardArr, m, k string) {
	if x.sc.binder > 0 {
		return
	}
	x.sc.assume(x.sc.iLe(x.sc.iConst(0), sel(cardArr, m)))
	x.sc.assume(implies(sel(sel(presArr, m), k), x.sc.iLe(x.sc.iConst(1), sel(cardArr, m))))
	x.sc.assume(eq(sel(cardArr, "0"), x.sc.iConst(0)))
}

func (x *Exec) lookup(f *frame, v *ssa.Lookup, st *State) *Val {
	m := x.val(f, v.X)
	if m.Srt == "Str" {
		idx := x.toIndex(x.val(f, v.Index), v.Index.Type())
		x.oblige(st, "idx", "", "string index", x.inRange(idx, x.sc.iConst(0), "(strlen "+m.S+")"), v.Pos())
		return scalar(v.Type(), "(strbyte "+m.S+" "+idx+")", bvSort(8))
	}
	val, ok := x.mapLookup(st, v.X.Type(), m.S, x.val(f, v.Index))
	if v.CommaOk {
		return &Val{K: KTuple, T: v.Type(), E: []*Val{val, scalar(types.Typ[types.Bool], ok, "Bool")}}
	}
	return val
}

func (x *Exec) mapLookup(st *State, t types.Type, m string, key *Val) (*Val, string) {
	mt, ks, pres, _, _, card, _, _ := x.mapComps(st, t)
	k := x.mapKeyTerm(st, mt, key)
	k = x.sc.defineB(x, "key", ks, k)
	pa, ca := x.use(pres), x.use(card)
	x.mapCardAxiom(st, pa, ca, m, k)
	present := and(not(eq(m, "0")), sel(sel(pa, m), k))
	present = x.sc.defineB(x, "has", "Bool", present)
	ls := x.leaves(mt.Elem())
	ts := make([]string, len(ls))
	for i, l := range ls {
		key := "Mv|" + typeKey(mt) + "|" + l.Path
		h := x.heapSym(st, key, x.mvInfo(ks, l))
		ts[i] = ite(present, sel(sel(x.use(h), m), k), x.zeroOfSort(l.Sort))
	}
	val, _ := x.unflatten(mt.Elem(), ts)
	x.wfLoaded(st, val)
	return val, present
}

func (x *Exec) mapUpdate(st *State, t types.Type, m string, key, val *Val) {
	mt, ks, pres, pk, pci, card, ck, cci := x.mapComps(st, t)
	k := x.mapKeyTerm(st, mt, key)
	k = x.sc.defineB(x, "key", ks, k)
	pa, ca := x.use(pres), x.use(card)
	x.mapCardAxiom(st, pa, ca, m, k)
	present := sel(sel(pa, m), k)
	x.freshCheck(st, pk, m, x.curPos)
	x.setHeap(st, ck, cci, sto(ca, m, ite(present, sel(ca, m), x.sc.iAdd(sel(ca, m), x.sc.iConst(1)))))
	x.setHeap(st, pk, pci, sto(pa, m, sto(sel(pa, m), k, "true")))
	ls := x.leaves(mt.Elem())
	ts := x.flatten(st, val)
	for i, l := range ls {
		key := "Mv|" + typeKey(mt) + "|" + l.Path
		ci := x.mvInfo(ks, l)
		h := x.heapSym(st, key, ci)
		a := x.use(h)
		x.freshCheck(st, key, m, x.curPos)
		x.setHeap(st, key, ci, sto(a, m, sto(sel(a, m), k, ts[i])))
	}
}

func (x *Exec) mapDelete(st *State, t types.Type, m string, key *Val) {
	mt, ks, pres, pk, pci, card, ck, cci := x.mapComps(st, t)
	k := x.mapKeyTerm(st, mt, key)
	k = x.sc.defineB(x, "key", ks, k)
	pa, ca := x.use(pres), x.use(card)
	x.mapCardAxiom(st, pa, ca, m, k)
	present := and(not(eq(m, "0")), sel(sel(pa, m), k))
	x.freshCheck(st, pk, m, x.curPos)
	x.setHeap(st, ck, cci, sto(ca, m, ite(present, x.sc.iSub(sel(ca, m), x.sc.iConst(1)), sel(ca, m))))
	x.setHeap(st, pk, pci, sto(pa, m, sto(sel(pa, m), k, "false")))
}

// bridgeLemmas adds instances of the facts that connect bit-vector values and mathematical
// integers (the solvers do not find them on their own):
//
//	bv -> int (unsigned):  0 <= r < 2^n,  int2bv(r) = x,  and order agreement with the other
//	                       converted terms of the same width
//	int -> bv:             0 <= x < 2^n ==> bv2nat(r) = x
func (x *Exec) bridgeLemmas(from, fs, to, ts string, fsigned bool) {
	if x.sc.binder > 0 || x.sc.bvMode {
		return
	}
	var n int
	if _, err := fmt.Sscanf(fs, "(_ BitVec %d)", &n); err == nil && ts == "Int" && !fsigned {
		key := fmt.Sprintf("%d|%s", n, from)
		if x.natDone[key] {
			return
		}
		x.natDone[key] = true
		pow := new(big.Int).Lsh(big.NewInt(1), uint(n)).String()
		x.sc.assume(and("(<= 0 "+to+")", "(< "+to+" "+pow+")"))
		x.sc.assume(eq(fmt.Sprintf("(bvof%d %s)", n, to), from))
		for _, o := range x.natTerms[n] {
			x.sc.assume(eq("(bvule "+from+" "+o[0]+")", "(<= "+to+" "+o[1]+")"))
			x.sc.assume(eq("(bvule "+o[0]+" "+from+")", "(<= "+o[1]+" "+to+")"))
		}
		x.natTerms[n] = append(x.natTerms[n], [2]string{from, to})
		return
	}
	if _, err := fmt.Sscanf(ts, "(_ BitVec %d)", &n); err == nil && fs == "Int" {
		pow := new(big.Int).Lsh(big.NewInt(1), uint(n)).String()
		x.sc.assume(implies(and("(<= 0 "+from+")", "(< "+from+" "+pow+")"), eq(fmt.Sprintf("(nat%d %s)", n, to), from)))
	}
}
