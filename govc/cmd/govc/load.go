package main

import (
	"bufio"
	"encoding/json"
	"fmt"
	"go/ast"
	"go/parser"
	"go/token"
	"go/types"
	"os"
	"path/filepath"
	"regexp"
	"sort"
	"strings"
	"sync"

	"golang.org/x/tools/go/packages"
	"golang.org/x/tools/go/ssa"
	"golang.org/x/tools/go/ssa/ssautil"
)

type Program struct {
	fset       *token.FileSet
	pkgPath    string
	tpkg       *types.Package
	info       *types.Info
	files      []*ast.File
	prog       *ssa.Program
	spkg       *ssa.Package
	cs         *ContractSet
	fnByKey    map[string]*ssa.Function
	genSrc     string
	pkgDir     string             // directory of the package under verification
	genMap     map[string]*Clause // clause fn name -> clause
	modPath    string             // module path prefix: functions under it may be inlined
	ghost      map[string]bool
	imports    map[string]*types.Package
	allFns     []*ssa.Function
	litOf      map[*ssa.Function]ast.Node
	modSSA     []*ssa.Package
	getterPkgs map[string]bool
	implCache  map[string]types.Type
	gsCands    []types.Type
	implMu     sync.Mutex
}

func readContractLines(path string) (lines []string, nos []int, goText []string, err error) {
	f, err := os.Open(path)
	if err != nil {
		return nil, nil, nil, err
	}
	defer f.Close()
	sc := bufio.NewScanner(f)
	sc.Buffer(make([]byte, 1<<20), 1<<20)
	n := 0
	for sc.Scan() {
		n++
		l := sc.Text()
		t := strings.TrimSpace(l)
		if strings.HasPrefix(t, "//@") {
			lines = append(lines, strings.TrimPrefix(t, "//@"))
			nos = append(nos, n)
		} else {
			goText = append(goText, l)
		}
	}
	return lines, nos, goText, sc.Err()
}

// loadProgram loads package pkgPattern of the repository at repoDir with the verif tag, reads the
// contracts, generates the clause functions into an in-memory file, type-checks and builds SSA.
// knownFindingsFile: when set, open findings with an "except" predicate are compiled into clause
// functions so that the obligation can be re-proved for all inputs outside the recorded one.
var knownFindingsFile string

func loadProgram(repoDir, pkgPattern, extDir string) (*Program, error) {
	cfg := &packages.Config{
		Mode: packages.NeedName | packages.NeedFiles | packages.NeedCompiledGoFiles | packages.NeedImports |
			packages.NeedTypes | packages.NeedTypesSizes | packages.NeedSyntax | packages.NeedTypesInfo | packages.NeedDeps | packages.NeedModule,
		Dir:        repoDir,
		BuildFlags: []string{"-tags=verif"},
		Env:        append(os.Environ(), "GOFLAGS=-mod=mod", "GOPROXY=off"),
	}
	// Dependencies come from export data (NeedDeps is required to obtain their types.Package
	// through the import graph, but without NeedSyntax on them the loader uses export data).
	pkgs, err := packages.Load(cfg, pkgPattern)
	if err != nil {
		return nil, err
	}
	if len(pkgs) != 1 {
		return nil, fmt.Errorf("expected one package, got %d", len(pkgs))
	}
	p0 := pkgs[0]
	if len(p0.Errors) > 0 {
		return nil, fmt.Errorf("package errors: %v", p0.Errors)
	}
	pkgDir0 := ""
	if len(p0.GoFiles) > 0 {
		pkgDir0 = filepath.Dir(p0.GoFiles[0])
	}
	P := &Program{fset: p0.Fset, pkgDir: pkgDir0, pkgPath: p0.PkgPath, fnByKey: map[string]*ssa.Function{}, genMap: map[string]*Clause{}, ghost: map[string]bool{}}
	if p0.Module != nil {
		P.modPath = p0.Module.Path
	}
	// in-module dependencies keep their syntax: their function bodies can be executed inline
	modPkgs := map[*types.Package]*packages.Package{}
	allPkgs := map[string]*packages.Package{}
	packages.Visit(pkgs, nil, func(p *packages.Package) {
		allPkgs[p.PkgPath] = p
		if p != p0 && P.modPath != "" && strings.HasPrefix(p.PkgPath, P.modPath) && p.Types != nil && len(p.Syntax) > 0 {
			modPkgs[p.Types] = p
		}
	})
	// collect transitive imports
	P.imports = map[string]*types.Package{}
	var visit func(tp *types.Package)
	visit = func(tp *types.Package) {
		if _, ok := P.imports[tp.Path()]; ok {
			return
		}
		P.imports[tp.Path()] = tp
		for _, i := range tp.Imports() {
			visit(i)
		}
	}
	for _, ip := range p0.Types.Imports() {
		visit(ip)
	}

	// ---- contracts ----
	cs := &ContractSet{byKey: map[string]*Contract{}, imports: map[string]string{}, ghostUF: map[string]bool{}, props: map[string][]string{}, consts: map[string]bool{}}
	P.cs = cs
	for _, gf := range p0.CompiledGoFiles {
		if strings.HasSuffix(gf, "_verif.go") {
			lines, nos, _, err := readContractLines(gf)
			if err != nil {
				return nil, err
			}
			cs.parseContractText(filepath.Base(gf), lines, nos, false)
		}
	}
	var extGo []string
	if extDir != "" {
		files, _ := filepath.Glob(filepath.Join(extDir, "*.ctr"))
		sort.Strings(files)
		for _, ef := range files {
			lines, nos, goText, err := readContractLines(ef)
			if err != nil {
				return nil, err
			}
			cs.parseContractText(filepath.Base(ef), lines, nos, true)
			extGo = append(extGo, "// ---- from "+filepath.Base(ef)+" ----")
			extGo = append(extGo, goText...)
		}
	}
	if orc, err := p4infoOracle(repoDir); err != nil {
		return nil, err
	} else if orc != "" {
		extGo = append(extGo, orc)
	}
	// imports of the package's own files are available under their usual names
	for _, f := range p0.Syntax {
		for _, im := range f.Imports {
			path := strings.Trim(im.Path.Value, `"`)
			var alias string
			if im.Name != nil {
				alias = im.Name.Name
			} else if tp, ok := P.imports[path]; ok {
				alias = tp.Name()
			}
			if alias != "" && alias != "_" && alias != "." {
				if _, ok := cs.imports[alias]; !ok {
					cs.imports[alias] = path
				}
			}
		}
	}
	P.getterPkgs = map[string]bool{}
	for _, sp := range cs.srcPkgs {
		if p, ok := allPkgs[sp]; ok && p.Types != nil && len(p.Syntax) > 0 {
			modPkgs[p.Types] = p
			P.getterPkgs[sp] = true
		}
	}
	for _, c := range cs.order {
		if err := c.parseDecl(p0.PkgPath, cs.imports); err != nil {
			cs.errs = append(cs.errs, err.Error())
			continue
		}
		c.fixExtKey(p0.PkgPath, cs.imports)
		if old, dup := cs.byKey[c.Key]; dup {
			cs.errs = append(cs.errs, fmt.Sprintf("%s: duplicate contract for %s (also %s)", c.Src, c.Key, old.Src))
		}
		cs.byKey[c.Key] = c
	}
	if len(cs.errs) > 0 {
		return nil, fmt.Errorf("contract errors:\n  %s", strings.Join(cs.errs, "\n  "))
	}

	// ---- phase 1 info: find declarations, loops and local variable types ----
	declByKey := map[string]*ast.FuncDecl{}
	for _, f := range p0.Syntax {
		for _, d := range f.Decls {
			if fd, ok := d.(*ast.FuncDecl); ok {
				if obj, ok := p0.TypesInfo.Defs[fd.Name].(*types.Func); ok {
					declByKey[obj.FullName()] = fd
				}
			}
		}
	}
	autoAlias := map[string]string{}
	pathAlias := map[string]string{}
	for a, p := range cs.imports {
		if _, ok := pathAlias[p]; !ok {
			pathAlias[p] = a
		}
	}
	qualifier := func(tp *types.Package) string {
		if tp.Path() == p0.PkgPath {
			return ""
		}
		if a, ok := pathAlias[tp.Path()]; ok {
			return a
		}
		a := fmt.Sprintf("gvimp%d", len(autoAlias))
		autoAlias[a] = tp.Path()
		pathAlias[tp.Path()] = a
		cs.imports[a] = tp.Path()
		return a
	}

	var gen strings.Builder
	nfn := 0
	emitClause := func(c *Contract, cl *Clause, args []ArgDesc) error {
		g, err := rewriteClause(cl.Text)
		if err != nil {
			return fmt.Errorf("%s: %v", cl.Src, err)
		}
		cl.Go = g
		nfn++
		cl.Fn = fmt.Sprintf("Gv%d_%s", nfn, cl.Kind)
		cl.Args = args
		var ps []string
		for _, a := range args {
			ps = append(ps, a.Name+" "+a.Type)
		}
		fmt.Fprintf(&gen, "// %s %s %s: %s\nfunc %s(%s) bool { return %s }\n\n", c.Key, cl.Kind, cl.Label, cl.Src, cl.Fn, strings.Join(ps, ", "), g)
		P.genMap[cl.Fn] = cl
		return nil
	}
	// known findings: "except" predicates over the parameters of the function
	if knownFindingsFile != "" {
		if b, err := os.ReadFile(knownFindingsFile); err == nil {
			var kfs []KnownFinding
			if json.Unmarshal(b, &kfs) == nil {
				for i := range kfs {
					k := kfs[i]
					if k.Status == "fixed" || k.Except == "" || k.Function == "" {
						continue
					}
					for _, c := range cs.order {
						if shortKeyOf(p0.PkgPath, c.Key) == k.Function {
							cl := &Clause{Kind: "requires", Label: "KF", Text: k.Except, Src: "KNOWN_FINDINGS.json"}
							c.KFExcept = append(c.KFExcept, KFClause{Obligation: k.Obligation, Clause: cl})
						}
					}
				}
			}
		}
	}
	for _, c := range cs.order {
		var logicals []ArgDesc
		for _, l := range c.Logicals {
			logicals = append(logicals, ArgDesc{Kind: "logical", Name: l.Name, Type: l.Type})
		}
		base := append([]ArgDesc{}, c.Params...)
		base = append(base, c.FreeVars...)
		for _, cl := range c.Requires {
			if err := emitClause(c, cl, append(append([]ArgDesc{}, base...), logicals...)); err != nil {
				return nil, err
			}
		}
		for _, kc := range c.KFExcept {
			if err := emitClause(c, kc.Clause, append(append([]ArgDesc{}, base...), logicals...)); err != nil {
				return nil, err
			}
		}
		for _, cl := range append(append([]*Clause{}, c.Ensures...), c.Defines...) {
			a := append(append([]ArgDesc{}, base...), c.Results...)
			if err := emitClause(c, cl, append(a, logicals...)); err != nil {
				return nil, err
			}
		}
		if len(c.Invs) == 0 {
			continue
		}
		// invariants: find the function body and its loops
		parentKey := c.Key
		if i := strings.Index(parentKey, "$"); i >= 0 {
			parentKey = parentKey[:i]
		}
		// A contract whose function, closure or loop no longer exists in the code (a helper was
		// inlined or replaced, a loop was removed) breaks only that contract: its invariants are
		// neutralised and marked, the function (and whatever relies on its contract) is reported,
		// every other function is still verified.
		breakInvs := func(msg string) error {
			for _, cl := range c.Invs {
				cl.Broken = msg
				cl.Text = "true"
				if err := emitClause(c, cl, append([]ArgDesc{}, base...)); err != nil {
					return err
				}
			}
			return nil
		}
		fd := declByKey[parentKey]
		if fd == nil || fd.Body == nil {
			if err := breakInvs(fmt.Sprintf("no declaration found for %s", parentKey)); err != nil {
				return nil, err
			}
			continue
		}
		var body *ast.BlockStmt = fd.Body
		if c.Closure > 0 {
			lit := nthFuncLit(fd.Body, c.Closure)
			if lit == nil {
				if err := breakInvs(fmt.Sprintf("closure #%d not found in %s", c.Closure, parentKey)); err != nil {
					return nil, err
				}
				continue
			}
			body = lit.Body
		}
		loops := loopsOf(body)
		badLoop := ""
		for _, cl := range c.Invs {
			if cl.Loop < 1 || cl.Loop > len(loops) {
				badLoop = fmt.Sprintf("loop %d does not exist (function has %d loops)", cl.Loop, len(loops))
			}
		}
		if badLoop != "" {
			if err := breakInvs(badLoop); err != nil {
				return nil, err
			}
			continue
		}
		for _, cl := range c.Invs {
			g, err := rewriteClause(cl.Text)
			if err != nil {
				return nil, fmt.Errorf("%s: %v", cl.Src, err)
			}
			e, err := parser.ParseExpr(g)
			if err != nil {
				return nil, fmt.Errorf("%s: cannot parse %q: %v", cl.Src, g, err)
			}
			known := map[string]bool{}
			for _, a := range base {
				known[a.Name] = true
			}
			for _, a := range logicals {
				known[a.Name] = true
			}
			pos := loopBodyPos(loops[cl.Loop-1])
			scope := p0.Types.Scope().Innermost(pos)
			var locals []ArgDesc
			seen := map[string]bool{}
			for _, id := range freeIdents(e) {
				if seen[id] {
					continue
				}
				seen[id] = true
				if id == "rangeidx" {
					// the hidden index of a range loop: completed iterations minus one
					locals = append(locals, ArgDesc{Kind: "rangeidx", Name: id, Type: "int"})
					continue
				}
				if id == "rangeover" {
					// the slice a range loop iterates over (for operands that have no name)
					if rs, ok := loops[cl.Loop-1].(*ast.RangeStmt); ok {
						if t := p0.TypesInfo.TypeOf(rs.X); t != nil {
							locals = append(locals, ArgDesc{Kind: "rangeover", Name: id, Type: types.TypeString(t, qualifier)})
							continue
						}
					}
					return nil, fmt.Errorf("%s: rangeover used outside a range loop", cl.Src)
				}
				if scope == nil {
					continue
				}
				_, obj := scope.LookupParent(id, pos)
				v, ok := obj.(*types.Var)
				if !ok || v.Parent() == nil || v.Parent() == p0.Types.Scope() || v.Parent() == types.Universe {
					continue
				}
				if known[id] {
					// a parameter of the contract declaration: make sure it is the same object kind
					continue
				}
				locals = append(locals, ArgDesc{Kind: "local", Name: id, Type: types.TypeString(v.Type(), qualifier), Idx: int(v.Pos())})
			}
			// results named in the real function are locals too (handled by scope lookup above)
			a := append(append([]ArgDesc{}, base...), locals...)
			if err := emitClause(c, cl, append(a, logicals...)); err != nil {
				return nil, err
			}
		}
	}

	var hdr strings.Builder
	hdr.WriteString("//go:build verif\n\npackage " + p0.Name + "\n\n")
	body := strings.Join(extGo, "\n") + "\n" + gen.String()
	var aliases []string
	for a := range cs.imports {
		aliases = append(aliases, a)
	}
	sort.Strings(aliases)
	hdr.WriteString("import (\n")
	code := stripCommentsAndStrings(body)
	for _, a := range aliases {
		if regexp.MustCompile(`(^|[^A-Za-z0-9_.])` + regexp.QuoteMeta(a) + `\.`).MatchString(code) {
			fmt.Fprintf(&hdr, "\t%s %q\n", a, cs.imports[a])
		}
	}
	hdr.WriteString(")\n\n")
	P.genSrc = hdr.String() + body

	// ---- phase 2: type-check package + generated file, build SSA ----
	var (
		genFile *ast.File
		files   []*ast.File
		info    *types.Info
		tpkg    *types.Package
	)
	for attempt := 0; ; attempt++ {
		genFile, err = parser.ParseFile(p0.Fset, filepath.Join(repoDir, fmt.Sprintf("zz_govc_generated%d_verif.go", attempt)), P.genSrc, parser.ParseComments)
		if err != nil {
			return nil, fmt.Errorf("generated clause file does not parse: %v\n%s", err, numbered(P.genSrc))
		}
		files = append(append([]*ast.File{}, p0.Syntax...), genFile)
		info = &types.Info{
			Types:      map[ast.Expr]types.TypeAndValue{},
			Defs:       map[*ast.Ident]types.Object{},
			Uses:       map[*ast.Ident]types.Object{},
			Implicits:  map[ast.Node]types.Object{},
			Selections: map[*ast.SelectorExpr]*types.Selection{},
			Scopes:     map[ast.Node]*types.Scope{},
			Instances:  map[*ast.Ident]types.Instance{},
		}
		var terrs []types.Error
		tc := &types.Config{
			Importer: importerFunc(func(path string) (*types.Package, error) {
				if tp, ok := P.imports[path]; ok {
					return tp, nil
				}
				if path == "unsafe" {
					return types.Unsafe, nil
				}
				// a package not imported by the repository package: load it on demand
				extra, err := packages.Load(cfg, path)
				if err != nil || len(extra) != 1 || extra[0].Types == nil {
					return nil, fmt.Errorf("cannot import %q", path)
				}
				visit(extra[0].Types)
				return extra[0].Types, nil
			}),
			Sizes: p0.TypesSizes,
			Error: func(err error) {
				if te, ok := err.(types.Error); ok {
					terrs = append(terrs, te)
				}
			},
		}
		tpkg, _ = tc.Check(p0.PkgPath, p0.Fset, files, info)
		if len(terrs) == 0 {
			break
		}
		// A clause that no longer type-checks against the code (a local it mentions was renamed, a
		// field changed its type, ...) breaks only the contract it belongs to: neutralise the clause,
		// remember why, and try again. Errors anywhere else are fatal.
		lines := strings.Split(P.genSrc, "\n")
		fixed := 0
		var msgs []string
		for _, te := range terrs {
			pos := te.Fset.Position(te.Pos)
			msgs = append(msgs, fmt.Sprintf("%s:%d: %s", shortFile(pos.Filename), pos.Line, te.Msg))
			if !strings.Contains(pos.Filename, "zz_govc_generated") || pos.Line < 1 || pos.Line > len(lines) {
				continue
			}
			l := lines[pos.Line-1]
			if !strings.HasPrefix(l, "func Gv") {
				continue
			}
			name := l[len("func "):strings.Index(l, "(")]
			cl := P.genMap[name]
			if cl == nil || cl.Broken != "" {
				continue
			}
			cl.Broken = te.Msg
			if i := strings.Index(l, ") bool { return "); i >= 0 {
				lines[pos.Line-1] = l[:i] + ") bool { return true }"
				fixed++
			}
		}
		if fixed == 0 || attempt >= 3 {
			return nil, fmt.Errorf("type errors (contracts?):\n  %s\n%s", strings.Join(msgs, "\n  "), "")
		}
		P.genSrc = strings.Join(lines, "\n")
	}
	P.tpkg, P.info, P.files = tpkg, info, files

	prog := ssa.NewProgram(p0.Fset, ssa.GlobalDebug|ssa.InstantiateGenerics)
	created := map[*types.Package]bool{}
	var createDeps func(tp *types.Package)
	createDeps = func(tp *types.Package) {
		if created[tp] {
			return
		}
		created[tp] = true
		for _, i := range tp.Imports() {
			createDeps(i)
		}
		if tp != tpkg {
			if mp, ok := modPkgs[tp]; ok {
				sp := prog.CreatePackage(tp, mp.Syntax, mp.TypesInfo, true)
				P.modSSA = append(P.modSSA, sp)
			} else {
				prog.CreatePackage(tp, nil, nil, true)
			}
		}
	}
	createDeps(tpkg)
	P.spkg = prog.CreatePackage(tpkg, files, info, true)
	P.prog = prog
	P.spkg.Build()
	for _, sp := range P.modSSA {
		sp.Build()
	}

	for fn := range ssautil.AllFunctions(prog) {
		if fn.Pkg == P.spkg || (fn.Parent() != nil && rootFn(fn).Pkg == P.spkg) {
			P.allFns = append(P.allFns, fn)
		}
	}
	sort.Slice(P.allFns, func(i, j int) bool { return P.allFns[i].String() < P.allFns[j].String() })
	for _, fn := range P.allFns {
		P.fnByKey[fnKey(fn)] = fn
	}
	// ghost functions: declared in *_verif.go files with a body that is exactly panic("ghost")
	for _, f := range files {
		name := P.fset.Position(f.Pos()).Filename
		if !strings.HasSuffix(name, "_verif.go") {
			continue
		}
		for _, d := range f.Decls {
			if fd, ok := d.(*ast.FuncDecl); ok && fd.Body != nil && len(fd.Body.List) == 1 {
				if es, ok := fd.Body.List[0].(*ast.ExprStmt); ok {
					if ce, ok := es.X.(*ast.CallExpr); ok {
						if id, ok := ce.Fun.(*ast.Ident); ok && id.Name == "panic" && len(ce.Args) == 1 {
							if bl, ok := ce.Args[0].(*ast.BasicLit); ok && bl.Value == `"ghost"` {
								P.ghost[fd.Name.Name] = true
							}
						}
					}
				}
			}
		}
	}
	return P, nil
}

func rootFn(fn *ssa.Function) *ssa.Function {
	for fn.Parent() != nil {
		fn = fn.Parent()
	}
	return fn
}

// fnKey is the contract key of an SSA function: types.Func.FullName, closures suffixed $n.
func fnKey(fn *ssa.Function) string {
	if fn.Parent() != nil {
		// name is parent$n
		name := fn.Name()
		i := strings.Index(name, "$")
		suffix := ""
		if i >= 0 {
			suffix = name[i:]
		}
		return fnKey(rootFn(fn)) + suffix
	}
	if obj, ok := fn.Object().(*types.Func); ok && obj != nil {
		return obj.FullName()
	}
	return fn.String()
}

type importerFunc func(path string) (*types.Package, error)

func (f importerFunc) Import(path string) (*types.Package, error) { return f(path) }

func numbered(s string) string {
	var b strings.Builder
	for i, l := range strings.Split(s, "\n") {
		fmt.Fprintf(&b, "%4d  %s\n", i+1, l)
	}
	return b.String()
}

func clauseHints(P *Program, errs []string) string {
	lines := strings.Split(P.genSrc, "\n")
	var b strings.Builder
	seen := map[int]bool{}
	for _, e := range errs {
		if !strings.Contains(e, "zz_govc_generated_verif.go:") {
			continue
		}
		var ln int
		rest := e[strings.Index(e, "zz_govc_generated_verif.go:")+len("zz_govc_generated_verif.go:"):]
		fmt.Sscanf(rest, "%d", &ln)
		if ln < 1 || ln > len(lines) || seen[ln] {
			continue
		}
		seen[ln] = true
		if ln >= 2 {
			fmt.Fprintf(&b, "    %s\n", lines[ln-2])
		}
		fmt.Fprintf(&b, "    %s\n", lines[ln-1])
	}
	return b.String()
}

func nthFuncLit(body *ast.BlockStmt, n int) *ast.FuncLit {
	var found *ast.FuncLit
	count := 0
	var walk func(node ast.Node) bool
	walk = func(node ast.Node) bool {
		if found != nil {
			return false
		}
		if lit, ok := node.(*ast.FuncLit); ok {
			count++
			if count == n {
				found = lit
			}
			return false // do not descend: nested literals are numbered under their parent
		}
		return true
	}
	ast.Inspect(body, walk)
	return found
}

// loopsOf lists for/range statements of a body in source order, not descending into closures.
func loopsOf(body *ast.BlockStmt) []ast.Stmt {
	var out []ast.Stmt
	ast.Inspect(body, func(n ast.Node) bool {
		switch s := n.(type) {
		case *ast.FuncLit:
			return false
		case *ast.ForStmt:
			if !neverRepeats(s.Body) {
				out = append(out, s)
			}
		case *ast.RangeStmt:
			if !neverRepeats(s.Body) {
				out = append(out, s)
			}
		}
		return true
	})
	return out
}

// neverRepeats: the loop body always ends in break or return and has no continue of its own - such
// a statement has no back edge in the SSA and is not a loop for the verifier (loop ordinals count
// SSA loops).
func neverRepeats(body *ast.BlockStmt) bool {
	if body == nil || len(body.List) == 0 {
		return false
	}
	switch l := body.List[len(body.List)-1].(type) {
	case *ast.BranchStmt:
		if l.Tok != token.BREAK || l.Label != nil {
			return false
		}
	case *ast.ReturnStmt:
	default:
		return false
	}
	cont := false
	ast.Inspect(body, func(n ast.Node) bool {
		switch v := n.(type) {
		case *ast.FuncLit, *ast.ForStmt, *ast.RangeStmt:
			return false
		case *ast.BranchStmt:
			if v.Tok == token.CONTINUE {
				cont = true
			}
		}
		return true
	})
	return !cont
}

func loopBodyPos(s ast.Stmt) token.Pos {
	switch l := s.(type) {
	case *ast.ForStmt:
		return l.Body.Lbrace + 1
	case *ast.RangeStmt:
		return l.Body.Lbrace + 1
	}
	return s.Pos()
}

// freeIdents lists identifiers used in e that are not selector fields or closure parameters.
func freeIdents(e ast.Expr) []string {
	var out []string
	bound := map[string]int{}
	var walk func(n ast.Node)
	walk = func(n ast.Node) {
		switch v := n.(type) {
		case nil:
			return
		case *ast.Ident:
			if bound[v.Name] == 0 {
				out = append(out, v.Name)
			}
		case *ast.SelectorExpr:
			walk(v.X)
		case *ast.KeyValueExpr:
			walk(v.Value)
		case *ast.FuncLit:
			var names []string
			for _, f := range v.Type.Params.List {
				for _, nm := range f.Names {
					names = append(names, nm.Name)
					bound[nm.Name]++
				}
			}
			ast.Inspect(v.Body, func(m ast.Node) bool {
				if ex, ok := m.(ast.Expr); ok {
					walk(ex)
					return false
				}
				return true
			})
			for _, nm := range names {
				bound[nm]--
			}
		case *ast.CallExpr:
			walk(v.Fun)
			for _, a := range v.Args {
				walk(a)
			}
		case *ast.BinaryExpr:
			walk(v.X)
			walk(v.Y)
		case *ast.UnaryExpr:
			walk(v.X)
		case *ast.ParenExpr:
			walk(v.X)
		case *ast.IndexExpr:
			walk(v.X)
			walk(v.Index)
		case *ast.SliceExpr:
			walk(v.X)
			walk(v.Low)
			walk(v.High)
			walk(v.Max)
		case *ast.StarExpr:
			walk(v.X)
		case *ast.TypeAssertExpr:
			walk(v.X)
		case *ast.CompositeLit:
			for _, el := range v.Elts {
				walk(el)
			}
		case *ast.BasicLit, *ast.ArrayType, *ast.MapType, *ast.FuncType, *ast.InterfaceType, *ast.StructType, *ast.ChanType:
		default:
		}
	}
	walk(e)
	return out
}

func stripCommentsAndStrings(src string) string {
	var b strings.Builder
	for _, l := range strings.Split(src, "\n") {
		i := 0
		for i < len(l) {
			c := l[i]
			if c == '"' || c == '`' {
				j := skipString(l, i)
				b.WriteString(" S ")
				i = j
				continue
			}
			if c == '/' && i+1 < len(l) && l[i+1] == '/' {
				break
			}
			b.WriteByte(c)
			i++
		}
		b.WriteByte('\n')
	}
	return b.String()
}

func shortKeyOf(pkgPath, k string) string { return strings.ReplaceAll(k, pkgPath+".", "") }
