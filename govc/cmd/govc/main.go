package main

import (
	"flag"
	"fmt"
	"os"
	"path/filepath"
	"runtime/debug"
	"sort"
	"strings"
	"time"

	"go/types"

	"golang.org/x/tools/go/ssa"
)

// FuncResult is the outcome of generating (and discharging) the VCs of one function.
type FuncResult struct {
	Key       string
	Err       string // unsupported construct / generator error: the function is NOT verified
	Obls      []*Obligation
	Warnings  []string
	Contracts []string // callee contracts relied on
	Models    []string // Go-coded dependency models relied on
	Inlined   []string
	Assumes   []string
	GenSecs   float64
	Script    *Script
	Blocking  []string
	Vacuous   bool
	// for the replay of counterexamples
	Fn       *ssa.Function
	Args     []*Val
	Logicals map[string]*Val
}

func verifyFunction(P *Program, key string) (res *FuncResult) {
	t0 := time.Now()
	res = &FuncResult{Key: key}
	fn := P.fnByKey[key]
	if fn == nil {
		res.Err = "no such function: " + key
		return
	}
	ctr := P.cs.byKey[key]
	if ctr != nil {
		if b := ctr.brokenClause(); b != nil {
			res.Err = fmt.Sprintf("contract clause %s (%s) no longer type-checks against the code: %s", clauseName(b), b.Src, b.Broken)
			return
		}
	}
	bv := ctr != nil && ctr.Mode == "bv"
	x := newExec(P, bv)
	x.root = fn
	x.rootCtr = ctr
	if ctr != nil {
		x.rootFresh = x.expandKeys(ctr.Fresh)
		for _, l := range ctr.Lemmas {
			if l == "bvarith" {
				x.bvArith = true
			}
		}
	}
	defer func() {
		res.GenSecs = time.Since(t0).Seconds()
		for _, o := range x.obls {
			if t, ok := x.kfExcept[o.Name]; ok {
				o.Except = t
			}
		}
		res.Obls = x.obls
		res.Fn, res.Logicals = fn, x.logicals
		res.Warnings = x.warnings
		res.Script = x.sc
		res.Blocking = x.blocking
		for k := range x.usedContract {
			res.Contracts = append(res.Contracts, k)
		}
		for k := range x.usedModels {
			res.Models = append(res.Models, k)
		}
		for k := range x.inlined {
			res.Inlined = append(res.Inlined, k)
		}
		sort.Strings(res.Contracts)
		sort.Strings(res.Models)
		sort.Strings(res.Inlined)
		res.Assumes = x.assumed
		if r := recover(); r != nil {
			if u, ok := r.(unsupportedErr); ok {
				res.Err = u.Error()
				if os.Getenv("GOVC_STACK") != "" {
					res.Err += "\n" + string(debug.Stack())
				}
			} else {
				res.Err = fmt.Sprintf("internal error: %v\n%s", r, debug.Stack())
			}
		}
	}()
	x.top0 = x.sc.declare("top0", "Int")
	x.sc.assume(fmt.Sprintf("(>= %s %d)", x.top0, firstDynRef))
	st := &State{pc: "true", heap: map[string]*HeapSym{}, cells: map[*Cell]*Val{}, allocTop: x.top0}
	x.cur = st
	x.stack = []*ssa.Function{fn}
	var args []*Val
	for _, p := range fn.Params {
		args = append(args, x.freshVal(p.Type(), "p_"+p.Name()))
	}
	var bindings []*Val
	for _, fv := range fn.FreeVars {
		bindings = append(bindings, x.freeVarBinding(st, fv))
	}
	x.stack = nil
	res.Args = args
	if ctr != nil && len(ctr.ArgWrites) > 0 {
		x.rootArgW = x.argWriteKeys(ctr, args)
	}
	if ctr != nil {
		bvals := x.bindingValues(st, fn, bindings)
		x.clauseFn = fn
		for _, cl := range ctr.Requires {
			cargs := x.clauseArgs(ctr, cl, args, bvals, nil, nil)
			g := x.evalClauseFn(cl.Fn, cargs, st, st)
			x.sc.assume(g)
			if strings.HasPrefix(cl.Label, "ASSUME.") {
				x.assumed = append(x.assumed, fmt.Sprintf("%s assumes %s", shortKey(P, key), cl.Text))
			}
		}
	}
	// known findings: evaluate the "except" predicates on the parameters
	if ctr != nil {
		bvals := x.bindingValues(st, fn, bindings)
		for _, kc := range ctr.KFExcept {
			if kc.Clause.Broken != "" {
				continue
			}
			cargs := x.clauseArgs(ctr, kc.Clause, args, bvals, nil, nil)
			g := x.evalClauseFn(kc.Clause.Fn, cargs, st, st)
			n := x.sc.fresh("kfexcept")
			x.sc.emit("(define-fun %s () Bool %s)", n, g)
			x.kfExcept[kc.Obligation] = n
		}
	}
	// vacuity guard: the precondition must be satisfiable
	x.obls = append(x.obls, &Obligation{Name: shortKey(P, key) + "/vacuity/precondition-satisfiable", Kind: "vacuity", Func: key, Pos: x.sc.pos(), Goal: "false"})
	x.run(fn, args, bindings, st, true, ctr)
	return
}

// freeVarBinding builds the value bound to a closure's free variable when the closure is verified
// on its own: func-typed cells with a unique content are resolved, everything else is arbitrary.
func (x *Exec) freeVarBinding(st *State, fv *ssa.FreeVar) *Val {
	if pt, ok := fv.Type().(*types.Pointer); ok {
		if _, isSig := pt.Elem().Underlying().(*types.Signature); isSig {
			if fn := x.P.resolveFuncCell(fv); fn != nil {
				c := x.newCell(pt.Elem(), fv.Name())
				st.cells[c] = &Val{K: KFunc, T: pt.Elem(), Fn: &FuncVal{Fn: fn}}
				return &Val{K: KPtr, T: fv.Type(), P: &Ptr{Kind: PCell, Cell: c}}
			}
		}
		// captured by reference: model the variable as a local cell with arbitrary content
		c := x.newCell(pt.Elem(), fv.Name())
		st.cells[c] = x.freshVal(pt.Elem(), "fv_"+fv.Name())
		return &Val{K: KPtr, T: fv.Type(), P: &Ptr{Kind: PCell, Cell: c}}
	}
	return x.freshVal(fv.Type(), "fv_"+fv.Name())
}

func main() {
	if len(os.Args) < 2 {
		fmt.Fprintln(os.Stderr, "usage: govc verify|check|list ...")
		os.Exit(2)
	}
	switch os.Args[1] {
	case "verify":
		cmdVerify(os.Args[2:])
	case "check":
		cmdCheck(os.Args[2:])
	case "gen":
		cmdGen(os.Args[2:])
	case "effects":
		cmdEffects(os.Args[2:])
	default:
		fmt.Fprintln(os.Stderr, "unknown command")
		os.Exit(2)
	}
}

func commonFlags(fs *flag.FlagSet) (repo, pkg, ext *string) {
	repo = fs.String("repo", "/repo", "repository root")
	pkg = fs.String("pkg", "./pfcpiface", "package pattern")
	ext = fs.String("ext", "/verif/contracts/ext", "directory of assumed dependency contracts")
	return
}

func cmdGen(args []string) {
	fs := flag.NewFlagSet("gen", flag.ExitOnError)
	repo, pkg, ext := commonFlags(fs)
	fs.Parse(args)
	P, err := loadProgram(*repo, *pkg, *ext)
	if err != nil {
		fmt.Fprintln(os.Stderr, err)
		os.Exit(2)
	}
	fmt.Println(P.genSrc)
}

func cmdVerify(args []string) {
	fs := flag.NewFlagSet("verify", flag.ExitOnError)
	repo, pkg, ext := commonFlags(fs)
	fns := fs.String("fn", "", "comma separated function keys (short form allowed)")
	out := fs.String("out", "/tmp/govc-out", "scratch directory for queries")
	secs := fs.Int("timeout", 10, "seconds per solver per obligation")
	thorough := fs.Bool("thorough", false, "run all solvers on every obligation")
	dump := fs.Bool("dump", false, "keep all queries")
	verbose := fs.Bool("v", false, "list every obligation")
	par := fs.Int("par", 8, "parallel obligations")
	fs.Parse(args)
	thoroughTier = *thorough
	t0 := time.Now()
	P, err := loadProgram(*repo, *pkg, *ext)
	if err != nil {
		fmt.Fprintln(os.Stderr, err)
		os.Exit(2)
	}
	fmt.Printf("loaded in %.1fs\n", time.Since(t0).Seconds())
	bad := 0
	for _, k := range strings.Split(*fns, ",") {
		k = strings.TrimSpace(k)
		if k == "" {
			continue
		}
		key := P.resolveKey(k)
		r := verifyFunction(P, key)
		if r.Err != "" {
			fmt.Printf("FUNC %s: NOT VERIFIED: %s\n", k, r.Err)
			bad++
		}
		dir := filepath.Join(*out, sanitize(k))
		os.RemoveAll(dir)
		if r.Script != nil {
			discharge(r.Script, r.Obls, dir, *secs, *thorough, *par)
		}
		_ = dump
		n, ok := 0, 0
		for _, o := range r.Obls {
			if o.Kind == "vacuity" || o.Kind == "cover" {
				if o.Status == "unsat" {
					fmt.Printf("  VACUOUS %s (unreachable under the assumptions) %s\n", o.Name, o.Src)
					bad++
				}
				continue
			}
			n++
			if o.Status == "unsat" {
				ok++
				if *verbose {
					fmt.Printf("  ok   %-70s %s %.2fs  %s\n", o.Name, o.Solver, o.Secs, o.Src)
				}
			} else {
				bad++
				fmt.Printf("  FAIL %-70s %s %s  %s\n", o.Name, o.Status, o.Solver, o.Src)
				if *verbose {
					fmt.Printf("       %s\n", trunc(o.Model, 1500))
				}
			}
		}
		fmt.Printf("FUNC %s: %d/%d obligations discharged (gen %.2fs)\n", k, ok, n, r.GenSecs)
		for _, w := range r.Warnings {
			fmt.Printf("  warning: %s\n", w)
		}
		if *verbose {
			fmt.Printf("  contracts used: %v\n  models used: %v\n  inlined: %v\n", r.Contracts, r.Models, r.Inlined)
		}
	}
	if bad > 0 {
		os.Exit(1)
	}
}

// resolveKey accepts short names: "(*IPPool).LookupOrAllocIP", "parseFlowDesc", "(portRange).Width$1".
func (P *Program) resolveKey(k string) string {
	if _, ok := P.fnByKey[k]; ok {
		return k
	}
	var cands []string
	for full := range P.fnByKey {
		if shortKey(P, full) == k {
			cands = append(cands, full)
		}
	}
	if len(cands) == 1 {
		return cands[0]
	}
	return k
}

func cmdEffects(args []string) {
	fs := flag.NewFlagSet("effects", flag.ExitOnError)
	repo, pkg, ext := commonFlags(fs)
	fns := fs.String("fn", "", "function")
	fs.Parse(args)
	P, err := loadProgram(*repo, *pkg, *ext)
	if err != nil {
		fmt.Fprintln(os.Stderr, err)
		os.Exit(2)
	}
	x := newExec(P, false)
	fn := P.fnByKey[P.resolveKey(*fns)]
	if fn == nil {
		fmt.Println("no such function")
		return
	}
	ws := x.effects(fn)
	fmt.Println("all:", ws.all, ws.why)
	for _, k := range ws.sortedKeys() {
		fmt.Println(" ", k)
	}
}
