package main

import (
	"fmt"

	"go/token"
	"go/types"
	"golang.org/x/tools/go/ssa"
	"strings"
)

// Go-coded models of dependency functions whose behaviour is byte-level or otherwise outside the
// contract language. Every model used by a VC is listed in the evidence as an assumed contract.
type modelFn func(x *Exec, st *State, args []*Val, sig *types.Signature, pos token.Pos) *Val

var models map[string]modelFn

// modelEffects: heap components a model may write (for the static write-set analysis).
var modelEffects = map[string][]string{
	"github.com/google/gopacket.SerializeLayers": {"E:uint8", "ghostarr.serlen"},
	"time.Now":   {"ghostbv.clock"},
	"time.Since": {"ghostbv.clock"},

	"google.golang.org/protobuf/types/known/anypb.New": {"ghost.marshalfail"},
	"(encoding/binary.bigEndian).PutUint16":            {"E:uint8"},
	"(encoding/binary.bigEndian).PutUint32":            {"E:uint8"},
	"(encoding/binary.bigEndian).PutUint64":            {"E:uint8"},
	"(encoding/binary.littleEndian).PutUint32":         {"E:uint8"},
	"(*sync.Mutex).Lock":                               nil,
	"(*sync.Mutex).Unlock":                             nil,
}

func init() {
	models = map[string]modelFn{
		"(encoding/binary.bigEndian).Uint16": func(x *Exec, st *State, a []*Val, s *types.Signature, p token.Pos) *Val {
			return x.mGetUint(st, a[1], 2, true, s, p)
		},
		"(encoding/binary.bigEndian).Uint32": func(x *Exec, st *State, a []*Val, s *types.Signature, p token.Pos) *Val {
			return x.mGetUint(st, a[1], 4, true, s, p)
		},
		"(encoding/binary.bigEndian).Uint64": func(x *Exec, st *State, a []*Val, s *types.Signature, p token.Pos) *Val {
			return x.mGetUint(st, a[1], 8, true, s, p)
		},
		"(encoding/binary.littleEndian).Uint32": func(x *Exec, st *State, a []*Val, s *types.Signature, p token.Pos) *Val {
			return x.mGetUint(st, a[1], 4, false, s, p)
		},
		"(encoding/binary.littleEndian).Uint64": func(x *Exec, st *State, a []*Val, s *types.Signature, p token.Pos) *Val {
			return x.mGetUint(st, a[1], 8, false, s, p)
		},
		"(encoding/binary.bigEndian).PutUint16": func(x *Exec, st *State, a []*Val, s *types.Signature, p token.Pos) *Val {
			return x.mPutUint(st, a[1], a[2], 2, p)
		},
		"(encoding/binary.bigEndian).PutUint32": func(x *Exec, st *State, a []*Val, s *types.Signature, p token.Pos) *Val {
			return x.mPutUint(st, a[1], a[2], 4, p)
		},
		"(encoding/binary.bigEndian).PutUint64": func(x *Exec, st *State, a []*Val, s *types.Signature, p token.Pos) *Val {
			return x.mPutUint(st, a[1], a[2], 8, p)
		},
		"(*sync.Once).Do":           mOnceDo,
		"(*sync.Mutex).Lock":        mLock,
		"(*sync.Mutex).Unlock":      mUnlock,
		"(*sync.RWMutex).Lock":      mLock,
		"(*sync.RWMutex).Unlock":    mUnlock,
		"(*sync.RWMutex).RLock":     mLock,
		"(*sync.RWMutex).RUnlock":   mUnlock,
		"math/bits.TrailingZeros32": mTrailingZeros32,
		"math/bits.Mul64": func(x *Exec, st *State, a []*Val, s *types.Signature, p token.Pos) *Val {
			// (hi, lo) of the 128-bit product
			prod := x.sc.defineB(x, "mul128", "(_ BitVec 128)", "(bvmul ((_ zero_extend 64) "+a[0].S+") ((_ zero_extend 64) "+a[1].S+"))")
			u64 := types.Typ[types.Uint64]
			return &Val{K: KTuple, T: s.Results(), E: []*Val{
				scalar(u64, "((_ extract 127 64) "+prod+")", bvSort(64)),
				scalar(u64, "((_ extract 63 0) "+prod+")", bvSort(64)),
			}}
		},
		"errors.New":              mNewError,
		"fmt.Errorf":              mNewError,
		"fmt.Sprintf":             mFreshPure,
		"fmt.Sprint":              mFreshPure,
		"fmt.Sprintln":            mFreshPure,
		"errors.Is":               mErrorsIs,
		"(error).Error":           mFreshPure,
		"encoding/json.Unmarshal": mHavocPointee(1),
		"google.golang.org/protobuf/types/known/anypb.New":   mAnyNew,
		"context.WithTimeout":                                mContextWith,
		"context.WithCancel":                                 mContextWith,
		"context.WithDeadline":                               mContextWith,
		"context.Background":                                 mNonNilIface,
		"context.TODO":                                       mNonNilIface,
		"(*sync.Map).Load":                                   mSyncMapLoad,
		"(*sync.Map).Store":                                  mSyncMapStore,
		"(*sync.Map).Delete":                                 mSyncMapDelete,
		"github.com/google/gopacket.NewSerializeBuffer":      mNewSerializeBuffer,
		"github.com/google/gopacket.SerializeLayers":         mSerializeLayers,
		"(github.com/google/gopacket.SerializeBuffer).Bytes": mSerializeBytes,
		"(*github.com/google/gopacket/layers.tcpipchecksum).SetNetworkLayerForChecksum": mFreshPure,
		"(*sync.Pool).Get": mFreshPure, // some object that already exists (or a new one): arbitrary interface value
		"(*sync.Pool).Put": func(x *Exec, st *State, a []*Val, s *types.Signature, p token.Pos) *Val { return nil },
		"time.Now":         mTimeNow,
		"time.Since":       mTimeSince,
		"(time.Time).IsZero": func(x *Exec, st *State, a []*Val, s *types.Signature, p token.Pos) *Val {
			return scalar(types.Typ[types.Bool], eq(a[0].S, "(_ bv0 64)"), "Bool")
		},
		"(time.Time).After": func(x *Exec, st *State, a []*Val, s *types.Signature, p token.Pos) *Val {
			return scalar(types.Typ[types.Bool], "(bvsgt "+a[0].S+" "+a[1].S+")", "Bool")
		},
		"(time.Time).Before": func(x *Exec, st *State, a []*Val, s *types.Signature, p token.Pos) *Val {
			return scalar(types.Typ[types.Bool], "(bvslt "+a[0].S+" "+a[1].S+")", "Bool")
		},
		"(time.Time).Sub": func(x *Exec, st *State, a []*Val, s *types.Signature, p token.Pos) *Val {
			return scalar(s.Results().At(0).Type(), "(bvsub "+a[0].S+" "+a[1].S+")", bvSort(64))
		},
	}
	for k, v := range gsModelTable {
		models[k] = v
	}
}

// modelByPrefix: families (logging).
func modelByPrefix(key string) modelFn {
	if strings.HasPrefix(key, "(*go.uber.org/zap.SugaredLogger).") {
		name := key[strings.LastIndex(key, ".")+1:]
		switch {
		case strings.HasPrefix(name, "Fatal") || strings.HasPrefix(name, "Panic") || strings.HasPrefix(name, "DPanic"):
			return func(x *Exec, st *State, a []*Val, s *types.Signature, p token.Pos) *Val {
				x.oblige(st, "unreach", "", "logger."+name+" terminates the process", "false", p)
				st.pc = "false"
				return nil
			}
		case name == "With" || name == "Named" || name == "WithOptions" || name == "Desugar":
			return func(x *Exec, st *State, a []*Val, s *types.Signature, p token.Pos) *Val {
				// returns some non-nil logger; logging has no effect on program state
				r := x.freshResults(st, s, "logger")
				if r.K == KPtr {
					x.sc.assume(not(eq(r.P.Ref, "0")))
				}
				return r
			}
		default:
			return func(x *Exec, st *State, a []*Val, s *types.Signature, p token.Pos) *Val {
				if s.Results().Len() > 0 {
					return x.freshResults(st, s, "logger")
				}
				return nil
			}
		}
	}
	return nil
}

func mFreshPure(x *Exec, st *State, a []*Val, s *types.Signature, p token.Pos) *Val {
	return x.freshResults(st, s, "pure")
}

// errors.New / fmt.Errorf: a fresh non-nil error.
func mNewError(x *Exec, st *State, a []*Val, s *types.Signature, p token.Pos) *Val {
	ref := x.alloc(st)
	tag := x.tagOf(types.NewPointer(types.Typ[types.String]))
	return &Val{K: KIface, T: s.Results().At(0).Type(), E: []*Val{scalar(nil, tag, "Int"), scalar(nil, ref, "Int")}}
}

// errors.Is(err, target): true when identical, false for nil err, otherwise unknown (wrapping).
func mErrorsIs(x *Exec, st *State, a []*Val, s *types.Signature, p token.Pos) *Val {
	x.materialize(st, a[0])
	x.materialize(st, a[1])
	if !x.sc.decl["errIs"] {
		x.sc.decl["errIs"] = true
		x.sc.ufDecls = append(x.sc.ufDecls, "(declare-fun errIs (Int Int) Bool)")
	}
	e, t := a[0].E[1].S, a[1].E[1].S
	r := fmt.Sprintf("(ite (= %s 0) (= %s 0) (ite (= %s %s) true (errIs %s %s)))", a[0].E[0].S, a[1].E[0].S, e, t, e, t)
	return scalar(types.Typ[types.Bool], x.sc.defineB(x, "is", "Bool", r), "Bool")
}

func (x *Exec) byteArr(st *State) (string, *HeapSym, string, compInfo) {
	u8 := types.Typ[types.Uint8]
	l := x.leaves(u8)[0]
	key := "E|" + typeKey(u8) + "|" + l.Path
	ci := x.eInfo(l)
	h := x.heapSym(st, key, ci)
	return x.use(h), h, key, ci
}

// binary.*Endian.UintN(b): requires len(b) >= n (the library panics otherwise).
func (x *Exec) mGetUint(st *State, b *Val, n int, big bool, sig *types.Signature, pos token.Pos) *Val {
	x.oblige(st, "idx", "", fmt.Sprintf("binary.Uint%d needs %d bytes", n*8, n), x.sc.iLe(x.sc.iConst(int64(n)), b.E[2].S), pos)
	E, _, _, _ := x.byteArr(st)
	arr := sel(E, b.E[0].S)
	var parts []string
	for i := 0; i < n; i++ {
		parts = append(parts, sel(arr, x.sc.iAdd(b.E[1].S, x.sc.iConst(int64(i)))))
	}
	if !big {
		for i, j := 0, len(parts)-1; i < j; i, j = i+1, j-1 {
			parts[i], parts[j] = parts[j], parts[i]
		}
	}
	t := "(concat " + strings.Join(parts, " ") + ")"
	return scalar(sig.Results().At(0).Type(), x.sc.defineB(x, "be", bvSort(n*8), t), bvSort(n*8))
}

func (x *Exec) mPutUint(st *State, b *Val, v *Val, n int, pos token.Pos) *Val {
	x.oblige(st, "idx", "", fmt.Sprintf("binary.PutUint%d needs %d bytes", n*8, n), x.sc.iLe(x.sc.iConst(int64(n)), b.E[2].S), pos)
	E, _, key, ci := x.byteArr(st)
	arr := sel(E, b.E[0].S)
	for i := 0; i < n; i++ {
		hi := (n-i)*8 - 1
		arr = sto(arr, x.sc.iAdd(b.E[1].S, x.sc.iConst(int64(i))), fmt.Sprintf("((_ extract %d %d) %s)", hi, hi-7, v.S))
	}
	x.freshCheck(st, key, b.E[0].S, pos)
	x.setHeap(st, key, ci, sto(E, b.E[0].S, arr))
	return nil
}

func mLock(x *Exec, st *State, a []*Val, s *types.Signature, p token.Pos) *Val {
	m := a[0]
	if m.K != KPtr || m.P.Kind != PHeap {
		x.warn("lock of a local mutex ignored")
		return nil
	}
	x.blockingOp(st, "mutex lock", p)
	h := x.lockComp(st, m.P)
	arr := x.use(h)
	x.oblige(st, "lock", "", "re-lock of "+pathString(m.P.Root, m.P.Path), not(sel(arr, m.P.Ref)), p)
	// one critical section per operation: a lock released earlier in this operation is not taken
	// again (otherwise the operation is not a single atomic step and its sequential contract says
	// nothing about concurrent use)
	rel := x.use(x.relComp(st, m.P))
	x.oblige(st, "atomic", "", "second critical section on "+pathString(m.P.Root, m.P.Path), not(sel(rel, m.P.Ref)), p)
	key := "L|" + typeKey(m.P.Root) + "|" + pathString(m.P.Root, m.P.Path)
	x.setHeap(st, key, compInfo{sort: "(Array Int Bool)"}, sto(arr, m.P.Ref, "true"))
	return nil
}

func mUnlock(x *Exec, st *State, a []*Val, s *types.Signature, p token.Pos) *Val {
	m := a[0]
	if m.K != KPtr || m.P.Kind != PHeap {
		return nil
	}
	h := x.lockComp(st, m.P)
	arr := x.use(h)
	x.oblige(st, "lock", "", "unlock of unlocked "+pathString(m.P.Root, m.P.Path), sel(arr, m.P.Ref), p)
	key := "L|" + typeKey(m.P.Root) + "|" + pathString(m.P.Root, m.P.Path)
	x.setHeap(st, key, compInfo{sort: "(Array Int Bool)"}, sto(arr, m.P.Ref, "false"))
	rk := "R|" + typeKey(m.P.Root) + "|" + pathString(m.P.Root, m.P.Path)
	x.setHeap(st, rk, compInfo{sort: "(Array Int Bool)"}, sto(x.use(x.relComp(st, m.P)), m.P.Ref, "true"))
	return nil
}

// relComp: "this lock was released earlier in the current operation". False everywhere when the
// function under verification is entered.
func (x *Exec) relComp(st *State, p *Ptr) *HeapSym {
	key := "R|" + typeKey(p.Root) + "|" + pathString(p.Root, p.Path)
	if h, ok := st.heap[key]; ok {
		return h
	}
	ci := compInfo{sort: "(Array Int Bool)"}
	x.keyInfo[key] = ci
	bk := fmt.Sprintf("%s#%d", key, st.gen)
	if h, ok := x.base[bk]; ok {
		return h
	}
	h := &HeapSym{name: "rel0", sort: ci.sort, declared: true, term: "((as const (Array Int Bool)) false)"}
	x.base[bk] = h
	return h
}

func mTrailingZeros32(x *Exec, st *State, a []*Val, s *types.Signature, p token.Pos) *Val {
	v := a[0].S
	t := x.sc.iConst(32)
	for i := 31; i >= 0; i-- {
		t = ite(fmt.Sprintf("(= ((_ extract %d %d) %s) #b1)", i, i, v), x.sc.iConst(int64(i)), t)
	}
	// order matters: lowest set bit wins, so build from high to low with the low test outermost
	return scalar(types.Typ[types.Int], x.sc.defineB(x, "tz", x.sc.intSort(), t), x.sc.intSort())
}

// mHavocPointee: the callee may write anything into the object its argument idx points to (passed
// as a pointer inside an interface, e.g. json.Unmarshal(data, &v)); the result is arbitrary.
func mHavocPointee(idx int) modelFn {
	return func(x *Exec, st *State, a []*Val, s *types.Signature, p token.Pos) *Val {
		v := a[idx]
		var ptr *Val
		if v.K == KIface && v.box != nil {
			ptr = v.box
		} else if v.K == KPtr {
			ptr = v
		}
		if ptr == nil || ptr.K != KPtr {
			panic(unsupported("model needs a statically known pointer argument"))
		}
		t := ptrRootAt(ptr.P)
		// ghost log "unmarshal": snapshots of the target before and after the call
		pre := x.alloc(st)
		x.store(st, &Ptr{Kind: PHeap, Ref: pre, Root: t}, x.load(st, ptr.P))
		nv := x.freshVal(t, "unmarshalled")
		x.store(st, ptr.P, nv)
		post := x.alloc(st)
		x.store(st, &Ptr{Kind: PHeap, Ref: post, Root: t}, nv)
		x.appendLog(st, "unmarshal")
		nk, ek := x.logKeys("unmarshal")
		n := x.use(x.heapSym(st, nk, x.keyInfo[nk]))
		e := x.use(x.heapSym(st, ek, x.keyInfo[ek]))
		id := sel(e, "(- "+n+" 1)")
		x.sc.bridge[64] = true
		for _, fv := range [][2]string{{"gf_unmarshal_pre", pre}, {"gf_unmarshal_post", post}} {
			if !x.sc.decl[fv[0]] {
				x.sc.decl[fv[0]] = true
				x.sc.ufDecls = append(x.sc.ufDecls, fmt.Sprintf("(declare-fun %s (Int) %s)", fv[0], bvSort(64)))
			}
			b := "(bvof64 " + fv[1] + ")"
			x.sc.assume(eq("("+fv[0]+" "+id+")", b))
			x.sc.assume(eq("(nat64 "+b+")", fv[1]))
		}
		return x.freshResults(st, s, "unmarshal")
	}
}

// context.With*: a non-nil context and a cancel function whose call has no effect on modelled state.
func mContextWith(x *Exec, st *State, a []*Val, s *types.Signature, p token.Pos) *Val {
	ctx := x.freshVal(s.Results().At(0).Type(), "ctx")
	x.sc.assume(not(eq(ctx.E[0].S, "0")))
	cancel := &Val{K: KFunc, T: s.Results().At(1).Type(), Fn: &FuncVal{Opaque: "1", Harmless: true}}
	return &Val{K: KTuple, T: s.Results(), E: []*Val{ctx, cancel}}
}

func mNonNilIface(x *Exec, st *State, a []*Val, s *types.Signature, p token.Pos) *Val {
	r := x.freshVal(s.Results().At(0).Type(), "iface")
	x.sc.assume(not(eq(r.E[0].S, "0")))
	return r
}

// anypb.New(m): marshals m. Model: a fresh *anypb.Any; when it succeeds, the ghost function
// specAnySrc(any) identifies a snapshot (field-wise copy made now) of the message struct, so later
// writes to the message do not change what was marshalled. Nested messages are shared, not copied.
func mAnyNew(x *Exec, st *State, a []*Val, s *types.Signature, p token.Pos) *Val {
	m := a[0]
	errV := x.freshVal(s.Results().At(1).Type(), "anyerr")
	x.bumpTop(st)
	ref := x.sc.declare("anyref", "Int")
	// either an error and a nil Any, or no error and a freshly allocated Any
	x.sc.assume(or(and(not(eq(errV.E[0].S, "0")), eq(ref, "0")), and(eq(errV.E[0].S, "0"), "(> "+ref+" "+x.prevTop+")", "(<= "+ref+" "+st.allocTop+")")))
	// ghost counter of marshalling failures
	fk := "G|marshalfail"
	x.keyInfo[fk] = compInfo{sort: "Int"}
	fh := x.use(x.heapSym(st, fk, x.keyInfo[fk]))
	x.setHeap(st, fk, x.keyInfo[fk], ite(eq(errV.E[0].S, "0"), fh, "(+ "+fh+" 1)"))
	pt := s.Results().At(0).Type().Underlying().(*types.Pointer)
	anyV := &Val{K: KPtr, T: s.Results().At(0).Type(), P: &Ptr{Kind: PHeap, Ref: ref, Root: pt.Elem()}}
	if !x.sc.decl["uf_specAnySrc"] {
		x.sc.decl["uf_specAnySrc"] = true
		x.sc.ufDecls = append(x.sc.ufDecls, "(declare-fun uf_specAnySrc (Int) "+x.sc.intSort()+")")
	}
	if m.K == KIface && m.box != nil && m.box.K == KPtr && m.box.P.Kind == PHeap && len(m.box.P.Path) == 0 {
		t := m.box.P.Root
		snap := x.alloc(st)
		v := x.load(st, m.box.P)
		x.store(st, &Ptr{Kind: PHeap, Ref: snap, Root: t}, v)
		x.sc.assume(implies(not(eq(ref, "0")), eq("(uf_specAnySrc "+ref+")", x.intAsGo(snap))))
	}
	return &Val{K: KTuple, T: s.Results(), E: []*Val{anyV, errV}}
}

// ---- sync.Map ----
//
// A sync.Map embedded at (root type, field path) of object ref is modelled as a ghost map from keys
// to interface values. Keys must be statically typed integers (zero-extended to 64 bits) or strings
// at each call site. Each operation is one atomic step (the type's documented guarantee); the
// single-goroutine view used here says nothing about interleavings between operations.

type smComps struct {
	pres, tag, ref *HeapSym
	pk, tk, rk     string
	pci, tci, rci  compInfo
	ks             string
}

func (x *Exec) smKeys(root types.Type, path []int, str bool) (pk, tk, rk, ks string) {
	base := "SM|" + typeKey(root) + "|" + pathString(root, path)
	ks = bvSort(64)
	if str {
		base += "#s"
		ks = "Str"
	}
	pk, tk, rk = base+"|p", base+"|t", base+"|r"
	x.keyInfo[pk] = compInfo{sort: "(Array Int (Array " + ks + " Bool))"}
	x.keyInfo[tk] = compInfo{sort: "(Array Int (Array " + ks + " Int))"}
	x.keyInfo[rk] = compInfo{sort: "(Array Int (Array " + ks + " Int))", ref: true, dim: 2}
	return
}

func (x *Exec) smComps(st *State, m *Val, str bool) *smComps {
	if m.K != KPtr || m.P.Kind != PHeap {
		panic(unsupported("sync.Map that is not a field of a heap object"))
	}
	c := &smComps{}
	c.pk, c.tk, c.rk, c.ks = x.smKeys(m.P.Root, m.P.Path, str)
	c.pci, c.tci, c.rci = x.keyInfo[c.pk], x.keyInfo[c.tk], x.keyInfo[c.rk]
	c.pres = x.heapSym(st, c.pk, c.pci)
	c.tag = x.heapSym(st, c.tk, c.tci)
	c.ref = x.heapSym(st, c.rk, c.rci)
	return c
}

// smKey: the key term of an interface-typed key argument whose static type is known.
func (x *Exec) smKey(k *Val) (string, bool) {
	if k.K == KIface {
		if k.box == nil {
			panic(unsupported("sync.Map key of statically unknown type"))
		}
		k = k.box
	}
	if k.K != KScalar {
		panic(unsupported("sync.Map key %s", k))
	}
	if k.Srt == "Str" {
		return k.S, true
	}
	return x.convNum(k.S, k.Srt, bvSort(64), false, false), false
}

func mSyncMapLoad(x *Exec, st *State, a []*Val, s *types.Signature, p token.Pos) *Val {
	k, str := x.smKey(a[1])
	c := x.smComps(st, a[0], str)
	m := a[0].P.Ref
	ok := x.sc.defineB(x, "smok", "Bool", sel(sel(x.use(c.pres), m), k))
	v := &Val{K: KIface, T: s.Results().At(0).Type(), E: []*Val{
		scalar(nil, ite(ok, sel(sel(x.use(c.tag), m), k), "0"), "Int"),
		scalar(nil, ite(ok, sel(sel(x.use(c.ref), m), k), "0"), "Int")}}
	x.sc.assume(implies(x.guard(st), implies(ok, "(> "+sel(sel(x.use(c.tag), m), k)+" 0)")))
	return &Val{K: KTuple, T: s.Results(), E: []*Val{v, scalar(types.Typ[types.Bool], ok, "Bool")}}
}

func mSyncMapStore(x *Exec, st *State, a []*Val, s *types.Signature, p token.Pos) *Val {
	k, str := x.smKey(a[1])
	c := x.smComps(st, a[0], str)
	m := a[0].P.Ref
	v := a[2]
	x.materialize(st, v)
	pa, ta, ra := x.use(c.pres), x.use(c.tag), x.use(c.ref)
	x.setHeap(st, c.pk, c.pci, sto(pa, m, sto(sel(pa, m), k, "true")))
	x.setHeap(st, c.tk, c.tci, sto(ta, m, sto(sel(ta, m), k, v.E[0].S)))
	x.setHeap(st, c.rk, c.rci, sto(ra, m, sto(sel(ra, m), k, v.E[1].S)))
	return nil
}

func mSyncMapDelete(x *Exec, st *State, a []*Val, s *types.Signature, p token.Pos) *Val {
	k, str := x.smKey(a[1])
	c := x.smComps(st, a[0], str)
	m := a[0].P.Ref
	pa := x.use(c.pres)
	x.setHeap(st, c.pk, c.pci, sto(pa, m, sto(sel(pa, m), k, "false")))
	return nil
}

// ---- time ----
// time.Time is an opaque signed 64-bit instant; a ghost clock makes successive time.Now() results
// monotone. time.Since(t) reads the clock as well.

func (x *Exec) clockNow(st *State) string {
	key := "G|clock"
	ci := compInfo{sort: bvSort(64)}
	x.keyInfo[key] = ci
	cur := x.use(x.heapSym(st, key, ci))
	now := x.sc.declare("now", bvSort(64))
	// instants are non-negative and far from the 64-bit boundary, so differences do not wrap
	x.sc.assume(and("(bvsge "+now+" "+cur+")", "(bvsge "+now+" (_ bv0 64))", "(bvslt "+now+" (_ bv4611686018427387904 64))"))
	x.setHeap(st, key, ci, now)
	return now
}

func mTimeNow(x *Exec, st *State, a []*Val, s *types.Signature, p token.Pos) *Val {
	return scalar(s.Results().At(0).Type(), x.clockNow(st), bvSort(64))
}

func mTimeSince(x *Exec, st *State, a []*Val, s *types.Signature, p token.Pos) *Val {
	now := x.clockNow(st)
	return scalar(s.Results().At(0).Type(), "(bvsub "+now+" "+a[0].S+")", bvSort(64))
}

// ---- gopacket serialization ----
//
// A SerializeBuffer is an object B that owns one byte array (identified by B as well). SerializeLayers
// replaces the array's contents; the new contents are abstract, but the ghost function
// specPktSer(bytes) names the serialization (snapshot identity s), and the ghost fields
// ser.layer<k>(s), ser.tag<k>(s), ser.n(s) give the layer objects that were serialized, in order.
// Bytes() returns the buffer's own array (no copy): serializing into the same buffer again changes
// the bytes of a slice obtained earlier - exactly like the real library.

func mNewSerializeBuffer(x *Exec, st *State, a []*Val, s *types.Signature, p token.Pos) *Val {
	ref := x.alloc(st)
	return &Val{K: KIface, T: s.Results().At(0).Type(), E: []*Val{scalar(nil, x.tagOf(types.Typ[types.UnsafePointer]), "Int"), scalar(nil, ref, "Int")}}
}

func (x *Exec) serLen(st *State) (*HeapSym, string, compInfo) {
	key := "G|serlen"
	ci := compInfo{sort: "(Array Int " + x.sc.intSort() + ")"}
	x.keyInfo[key] = ci
	return x.heapSym(st, key, ci), key, ci
}

func mSerializeLayers(x *Exec, st *State, a []*Val, s *types.Signature, p token.Pos) *Val {
	w, layers := a[0], a[2]
	x.materialize(st, w)
	B := w.E[1].S
	I := x.sc.intSort()
	errV := x.freshVal(s.Results().At(0).Type(), "sererr")
	ok := eq(errV.E[0].S, "0")
	snap := x.alloc(st)
	// layers
	et := x.sliceElem(layers.T)
	ls := x.leaves(et)
	decl := func(n, srt string) {
		if !x.sc.decl[n] {
			x.sc.decl[n] = true
			x.sc.ufDecls = append(x.sc.ufDecls, fmt.Sprintf("(declare-fun %s (Int) %s)", n, srt))
		}
	}
	x.sc.bridge[64] = true
	for k := 0; k < 6; k++ {
		idx := x.sc.iAdd(layers.E[1].S, x.sc.iConst(int64(k)))
		var tag, ref string
		for _, l := range ls {
			key := "E|" + typeKey(et) + "|" + l.Path
			h := x.heapSym(st, key, x.eInfo(l))
			v := sel(sel(x.use(h), layers.E[0].S), idx)
			if l.Path == ".tag" {
				tag = v
			} else {
				ref = v
			}
		}
		inLen := x.sc.iLt(x.sc.iConst(int64(k)), layers.E[2].S)
		decl(fmt.Sprintf("gf_ser_layer%d", k), bvSort(64))
		decl(fmt.Sprintf("gf_ser_tag%d", k), bvSort(64))
		rb := "(bvof64 " + ref + ")"
		x.sc.assume(implies(inLen, and(eq(fmt.Sprintf("(gf_ser_layer%d %s)", k, snap), rb), eq(fmt.Sprintf("(gf_ser_tag%d %s)", k, snap), "(bvof64 "+tag+")"))))
		x.sc.assume(implies(and("(<= 0 "+ref+")", "(< "+ref+" 4611686018427387904)"), eq("(nat64 "+rb+")", ref)))
	}
	decl("gf_ser_n", bvSort(64))
	x.sc.assume(eq("(gf_ser_n "+snap+")", x.convNum(layers.E[2].S, I, bvSort(64), true, false)))
	// bytes
	E, _, key, ci := x.byteArr(st)
	arr := x.sc.declare("pktbytes", "(Array "+I+" "+bvSort(8)+")")
	n := x.sc.declare("pktlen", I)
	x.sc.assume(and(x.sc.iLe(x.sc.iConst(0), n), x.sc.iLe(n, x.sc.iConst(1<<20))))
	x.freshCheck(st, key, B, p)
	x.setHeap(st, key, ci, sto(E, B, arr))
	lh, lk, lci := x.serLen(st)
	x.setHeap(st, lk, lci, sto(x.use(lh), B, n))
	if !x.sc.decl["uf_specPktSer"] {
		x.sc.decl["uf_specPktSer"] = true
		x.sc.ufDecls = append(x.sc.ufDecls, fmt.Sprintf("(declare-fun uf_specPktSer ((Array %s %s) %s %s) %s)", I, bvSort(8), I, I, I))
	}
	x.sc.assume(implies(ok, eq("(uf_specPktSer "+arr+" "+x.sc.iConst(0)+" "+n+")", x.intAsGo(snap))))
	return errV
}

func mSerializeBytes(x *Exec, st *State, a []*Val, s *types.Signature, p token.Pos) *Val {
	w := a[0]
	x.materialize(st, w)
	B := w.E[1].S
	I := x.sc.intSort()
	lh, _, _ := x.serLen(st)
	n := sel(x.use(lh), B)
	x.sc.assume(implies(x.guard(st), and(x.sc.iLe(x.sc.iConst(0), n), x.sc.iLe(n, x.sc.iConst(1<<20)))))
	return &Val{K: KSlice, T: s.Results().At(0).Type(), E: []*Val{scalar(nil, B, "Int"), scalar(nil, x.sc.iConst(0), I), scalar(nil, n, I), scalar(nil, n, I)}}
}

// ---- sync.Once ----
// A done bit per (object, field). Do(f) runs f exactly when the bit is clear and sets it (one atomic
// step in the single-goroutine view; concurrent callers are serialised by the real Once).

func (x *Exec) onceComp(st *State, p *Ptr) (*HeapSym, string, compInfo) {
	key := "O|" + typeKey(p.Root) + "|" + pathString(p.Root, p.Path)
	ci := compInfo{sort: "(Array Int Bool)"}
	x.keyInfo[key] = ci
	return x.heapSym(st, key, ci), key, ci
}

func mOnceDo(x *Exec, st *State, a []*Val, s *types.Signature, p token.Pos) *Val {
	m, fv := a[0], a[1]
	if m.K != KPtr || m.P.Kind != PHeap {
		panic(unsupported("sync.Once that is not a field of a heap object"))
	}
	if fv.K != KFunc || fv.Fn == nil || fv.Fn.Fn == nil {
		panic(unsupported("sync.Once.Do of a function that is not statically known"))
	}
	h, key, ci := x.onceComp(st, m.P)
	arr := x.use(h)
	done := x.sc.defineB(x, "oncedone", "Bool", sel(arr, m.P.Ref))
	s2 := st.clone()
	s2.pc = and(st.pc, not(done))
	x.setHeap(s2, key, ci, sto(arr, m.P.Ref, "true"))
	// a method value (pConn.method): the bound receiver is the only argument
	var cargs []*Val
	cb := fv.Fn.Bindings
	target := fv.Fn.Fn
	if strings.HasSuffix(target.Name(), "$bound") && len(cb) == 1 {
		// the synthetic wrapper of a method value calls the method on its one free variable
		for _, b := range target.Blocks {
			for _, ins := range b.Instrs {
				if c, ok := ins.(ssa.CallInstruction); ok && c.Common().StaticCallee() != nil {
					target = c.Common().StaticCallee()
				}
			}
		}
		cargs, cb = cb, nil
	} else if target.Signature.Recv() != nil && len(cb) == 1 {
		cargs, cb = cb, nil
	}
	x.callStatic(target, cargs, cb, s2, p)
	s3 := st.clone()
	s3.pc = and(st.pc, done)
	mg := x.mergeStates([]string{s2.pc, s3.pc}, []*State{s2, s3})
	mg.defers = st.defers
	*st = *mg
	return nil
}
