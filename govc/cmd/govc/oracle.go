package main

import (
	"fmt"
	"os"
	"path/filepath"
	"sort"
	"strconv"
	"strings"
)

// Oracle for the shipped P4 pipeline: conf/p4/bin/p4info.txt (protobuf text format) is parsed on
// every run and turned into Go specification functions (names -> ids, kinds, widths, allowed
// actions, array sizes). The contracts of the P4Runtime entry builders are stated against them.

type pbNode struct {
	fields map[string][]string
	kids   map[string][]*pbNode
}

func parseTextProto(src string) (*pbNode, error) {
	toks := pbTokens(src)
	pos := 0
	var parse func() (*pbNode, error)
	parse = func() (*pbNode, error) {
		n := &pbNode{fields: map[string][]string{}, kids: map[string][]*pbNode{}}
		for pos < len(toks) {
			t := toks[pos]
			if t == "}" {
				pos++
				return n, nil
			}
			name := strings.TrimSuffix(t, ":")
			pos++
			if pos >= len(toks) {
				return nil, fmt.Errorf("unexpected end after %s", name)
			}
			if toks[pos] == "{" {
				pos++
				k, err := parse()
				if err != nil {
					return nil, err
				}
				n.kids[name] = append(n.kids[name], k)
				continue
			}
			n.fields[name] = append(n.fields[name], toks[pos])
			pos++
		}
		return n, nil
	}
	return parse()
}

func pbTokens(src string) []string {
	var out []string
	i := 0
	for i < len(src) {
		c := src[i]
		switch {
		case c == ' ' || c == '\n' || c == '\t' || c == '\r':
			i++
		case c == '#':
			for i < len(src) && src[i] != '\n' {
				i++
			}
		case c == '{' || c == '}':
			out = append(out, string(c))
			i++
		case c == '"':
			j := i + 1
			for j < len(src) && src[j] != '"' {
				if src[j] == '\\' {
					j++
				}
				j++
			}
			out = append(out, src[i:j+1])
			i = j + 1
		default:
			j := i
			for j < len(src) && !strings.ContainsRune(" \n\t\r{}", rune(src[j])) {
				j++
			}
			out = append(out, src[i:j])
			i = j
		}
	}
	return out
}

func (n *pbNode) str(name string) string {
	if v := n.fields[name]; len(v) > 0 {
		s := v[0]
		if u, err := strconv.Unquote(s); err == nil {
			return u
		}
		return s
	}
	return ""
}

func (n *pbNode) num(name string) int64 {
	v, _ := strconv.ParseInt(n.str(name), 10, 64)
	return v
}

// p4infoOracle returns Go source (spec functions) derived from the p4info file, or "" if absent.
func p4infoOracle(repoDir string) (string, error) {
	path := filepath.Join(repoDir, "conf", "p4", "bin", "p4info.txt")
	b, err := os.ReadFile(path)
	if err != nil {
		return "", nil
	}
	root, err := parseTextProto(string(b))
	if err != nil {
		return "", fmt.Errorf("p4info.txt: %v", err)
	}
	kindCode := map[string]int{"EXACT": 1, "LPM": 2, "TERNARY": 3, "RANGE": 4, "OPTIONAL": 5}
	var sb strings.Builder
	sb.WriteString("// ---- GENERATED on this run from conf/p4/bin/p4info.txt (oracle of the shipped pipeline) ----\n\n")
	type fld struct {
		table int64
		name  string
		id    int64
		kind  int
		width int64
	}
	var fields []fld
	var allowed [][2]int64
	needPrio := map[int64]bool{}
	var tables []int64
	for _, t := range root.kids["tables"] {
		pre := t.kids["preamble"][0]
		id := pre.num("id")
		tables = append(tables, id)
		for _, mf := range t.kids["match_fields"] {
			k := kindCode[mf.str("match_type")]
			fields = append(fields, fld{id, mf.str("name"), mf.num("id"), k, mf.num("bitwidth")})
			if k >= 3 {
				needPrio[id] = true
			}
		}
		for _, ar := range t.kids["action_refs"] {
			if ar.str("scope") == "DEFAULT_ONLY" {
				continue
			}
			allowed = append(allowed, [2]int64{id, ar.num("id")})
		}
	}
	maxOf := func(w int64) string {
		if w >= 64 {
			return "18446744073709551615"
		}
		return fmt.Sprintf("%d", (uint64(1)<<uint(w))-1)
	}
	sb.WriteString("// oracleP4FieldKind: 0 unknown, 1 EXACT, 2 LPM, 3 TERNARY, 4 RANGE, 5 OPTIONAL\nfunc oracleP4FieldKind(table uint32, name string) int {\n")
	for _, f := range fields {
		fmt.Fprintf(&sb, "\tif table == %d && name == %q {\n\t\treturn %d\n\t}\n", f.table, f.name, f.kind)
	}
	sb.WriteString("\treturn 0\n}\n\n// oracleP4FieldMax: largest value that fits the declared bit width\nfunc oracleP4FieldMax(table uint32, name string) uint64 {\n")
	for _, f := range fields {
		fmt.Fprintf(&sb, "\tif table == %d && name == %q {\n\t\treturn %s\n\t}\n", f.table, f.name, maxOf(f.width))
	}
	sb.WriteString("\treturn 0\n}\n\nfunc oracleP4FieldWidth(table uint32, name string) int {\n")
	for _, f := range fields {
		fmt.Fprintf(&sb, "\tif table == %d && name == %q {\n\t\treturn %d\n\t}\n", f.table, f.name, f.width)
	}
	sb.WriteString("\treturn 0\n}\n\nfunc oracleP4FieldID(table uint32, name string) uint32 {\n")
	for _, f := range fields {
		fmt.Fprintf(&sb, "\tif table == %d && name == %q {\n\t\treturn %d\n\t}\n", f.table, f.name, f.id)
	}
	sb.WriteString("\treturn 0\n}\n\nfunc oracleP4HasTable(table uint32) bool {\n\treturn ")
	var ts []string
	for _, t := range tables {
		ts = append(ts, fmt.Sprintf("table == %d", t))
	}
	sb.WriteString(strings.Join(ts, " || ") + "\n}\n\nfunc oracleP4Allowed(table uint32, action uint32) bool {\n\treturn ")
	var as []string
	for _, a := range allowed {
		as = append(as, fmt.Sprintf("table == %d && action == %d", a[0], a[1]))
	}
	sb.WriteString(strings.Join(as, " ||\n\t\t") + "\n}\n\n// oracleP4NeedsPriority: the table has a ternary, range or optional field\nfunc oracleP4NeedsPriority(table uint32) bool {\n\treturn ")
	var ps []string
	var pk []int64
	for k := range needPrio {
		pk = append(pk, k)
	}
	sort.Slice(pk, func(i, j int) bool { return pk[i] < pk[j] })
	for _, k := range pk {
		ps = append(ps, fmt.Sprintf("table == %d", k))
	}
	if len(ps) == 0 {
		ps = []string{"false"}
	}
	sb.WriteString(strings.Join(ps, " || ") + "\n}\n\n")
	// actions
	sb.WriteString("// oracleP4ParamMax: 0 when the action has no such parameter (all declared widths are >= 1)\nfunc oracleP4ParamMax(action uint32, name string) uint64 {\n")
	type prm struct {
		action int64
		name   string
		id     int64
		width  int64
	}
	var params []prm
	counts := map[int64]int{}
	var actions []int64
	for _, a := range root.kids["actions"] {
		id := a.kids["preamble"][0].num("id")
		actions = append(actions, id)
		for _, p := range a.kids["params"] {
			params = append(params, prm{id, p.str("name"), p.num("id"), p.num("bitwidth")})
			counts[id]++
		}
	}
	for _, p := range params {
		fmt.Fprintf(&sb, "\tif action == %d && name == %q {\n\t\treturn %s\n\t}\n", p.action, p.name, maxOf(p.width))
	}
	sb.WriteString("\treturn 0\n}\n\nfunc oracleP4ParamID(action uint32, name string) uint32 {\n")
	for _, p := range params {
		fmt.Fprintf(&sb, "\tif action == %d && name == %q {\n\t\treturn %d\n\t}\n", p.action, p.name, p.id)
	}
	sb.WriteString("\treturn 0\n}\n\nfunc oracleP4HasAction(action uint32) bool {\n\treturn ")
	var acs []string
	for _, a := range actions {
		acs = append(acs, fmt.Sprintf("action == %d", a))
	}
	sb.WriteString(strings.Join(acs, " || ") + "\n}\n\nfunc oracleP4ParamCount(action uint32) int {\n")
	for _, a := range actions {
		fmt.Fprintf(&sb, "\tif action == %d {\n\t\treturn %d\n\t}\n", a, counts[a])
	}
	sb.WriteString("\treturn 0\n}\n\n// array sizes\nfunc oracleP4MeterSize(id uint32) int64 {\n")
	for _, m := range root.kids["meters"] {
		fmt.Fprintf(&sb, "\tif id == %d {\n\t\treturn %d\n\t}\n", m.kids["preamble"][0].num("id"), m.num("size"))
	}
	sb.WriteString("\treturn 0\n}\n\nfunc oracleP4CounterSize(id uint32) int64 {\n")
	for _, m := range root.kids["counters"] {
		fmt.Fprintf(&sb, "\tif id == %d {\n\t\treturn %d\n\t}\n", m.kids["preamble"][0].num("id"), m.num("size"))
	}
	sb.WriteString("\treturn 0\n}\n")
	return sb.String(), nil
}

// ---- static obligation: the committed pipeline constants are those of the shipped p4info ----

func camelP4(name string) string {
	var sb strings.Builder
	up := true
	for _, r := range name {
		if r == '.' || r == '_' {
			up = true
			continue
		}
		if up {
			sb.WriteString(strings.ToUpper(string(r)))
			up = false
		} else {
			sb.WriteRune(r)
		}
	}
	return sb.String()
}

// verifyConstants compares internal/p4constants/p4constants.go (parsed, not executed) with the
// p4info file: every table, action, meter, counter and match field of the p4info must have its
// constant with the same numeric ID (C16, "the constants compiled into the agent are exactly those
// derived from the shipped P4Info"). One obligation per object; decided syntactically.
func verifyConstants(repoDir string) *FuncResult {
	res := &FuncResult{Key: "constants:internal/p4constants"}
	b, err := os.ReadFile(filepath.Join(repoDir, "conf", "p4", "bin", "p4info.txt"))
	if err != nil {
		res.Err = err.Error()
		return res
	}
	root, err := parseTextProto(string(b))
	if err != nil {
		res.Err = err.Error()
		return res
	}
	src, err := os.ReadFile(filepath.Join(repoDir, "internal", "p4constants", "p4constants.go"))
	if err != nil {
		res.Err = err.Error()
		return res
	}
	consts := map[string]string{}
	for _, l := range strings.Split(string(src), "\n") {
		f := strings.Fields(l)
		// Name uint32 = 123   |  Name string = "x"
		if len(f) == 4 && f[2] == "=" && (f[1] == "uint32" || f[1] == "uint64") {
			consts[f[0]] = f[3]
		}
	}
	check := func(kind, goName string, id int64) {
		o := &Obligation{Name: "constants/" + kind + "/" + goName, Kind: "constants", Label: "C16.constants", Src: "internal/p4constants/p4constants.go"}
		got, ok := consts[goName]
		switch {
		case !ok:
			o.Status, o.Model = "sat", fmt.Sprintf("p4info declares %s %s with id %d; no constant %s in p4constants.go", kind, goName, id, goName)
		case got != fmt.Sprint(id):
			o.Status, o.Model = "sat", fmt.Sprintf("constant %s is %s, the shipped p4info says %d", goName, got, id)
		default:
			o.Status, o.Solver = "unsat", "syntactic"
		}
		res.Obls = append(res.Obls, o)
	}
	for _, t := range root.kids["tables"] {
		pre := t.kids["preamble"][0]
		tn := camelP4(pre.str("name"))
		check("table", "Table"+tn, pre.num("id"))
		for _, mf := range t.kids["match_fields"] {
			check("match-field", "Hdr"+tn+camelP4(mf.str("name")), mf.num("id"))
		}
	}
	for _, a := range root.kids["actions"] {
		pre := a.kids["preamble"][0]
		check("action", "Action"+camelP4(pre.str("name")), pre.num("id"))
	}
	for _, m := range root.kids["meters"] {
		pre := m.kids["preamble"][0]
		check("meter", "Meter"+camelP4(pre.str("name")), pre.num("id"))
	}
	for _, c := range root.kids["counters"] {
		pre := c.kids["preamble"][0]
		check("counter", "Counter"+camelP4(pre.str("name")), pre.num("id"))
	}
	if len(res.Obls) == 0 {
		res.Err = "p4info.txt declares nothing"
	}
	return res
}
