package main

// Automatic replay of a solver counterexample on the real code.
//
// Scope (stated in DESIGN.md): a failed `post` obligation, or a failed panic-class obligation
// (nil / index / slice / div / tassert), of a function whose receiver and parameters are scalars or
// structs of scalars declared in the package (no pointers, slices, maps, interfaces, strings), for
// which a solver returned `sat` with a model. The model's values of the parameter symbols (and of
// the contract's logical variables) are written into a Go test that calls the real function and
// evaluates the compiled ensures clause; the test is injected with `go test -overlay` (nothing is
// written into the repository). Only a test that fails on the real code counts as a replay.

import (
	"encoding/json"
	"fmt"
	"go/types"
	"math/big"
	"os"
	"os/exec"
	"path/filepath"
	"regexp"
	"strings"
	"time"

	"golang.org/x/tools/go/ssa"
)

var symRe = regexp.MustCompile(`^[A-Za-z_][A-Za-z0-9_!.]*$`)

// modelValue extracts the value s-expression of a nullary define-fun from a z3 / cvc5 model.
func modelValue(model, sym string) (string, bool) {
	key := "(define-fun " + sym + " ()"
	i := strings.Index(model, key)
	if i < 0 {
		return "", false
	}
	rest := strings.TrimLeft(model[i+len(key):], " \n\t")
	// skip the sort
	rest = strings.TrimLeft(skipSexp(rest), " \n\t")
	v := rest[:len(rest)-len(skipSexp(rest))]
	return strings.Join(strings.Fields(v), " "), v != ""
}

// skipSexp returns s without its first s-expression.
func skipSexp(s string) string {
	if s == "" {
		return s
	}
	if s[0] != '(' {
		j := strings.IndexAny(s, " \n\t)")
		if j < 0 {
			return ""
		}
		return s[j:]
	}
	d := 0
	for j := 0; j < len(s); j++ {
		switch s[j] {
		case '(':
			d++
		case ')':
			d--
			if d == 0 {
				return s[j+1:]
			}
		}
	}
	return ""
}

// smtNumber parses #x.., #b.., decimal and (- n) into an integer (bit-vectors unsigned).
func smtNumber(v string) (*big.Int, int, bool) {
	v = strings.TrimSpace(v)
	n := new(big.Int)
	switch {
	case strings.HasPrefix(v, "#x"):
		_, ok := n.SetString(v[2:], 16)
		return n, 4 * len(v[2:]), ok
	case strings.HasPrefix(v, "#b"):
		_, ok := n.SetString(v[2:], 2)
		return n, len(v[2:]), ok
	case strings.HasPrefix(v, "(- ") && strings.HasSuffix(v, ")"):
		_, ok := n.SetString(strings.TrimSpace(v[3:len(v)-1]), 10)
		return n.Neg(n), 0, ok
	case strings.HasPrefix(v, "(_ bv"):
		f := strings.Fields(strings.Trim(v, "()"))
		if len(f) == 3 {
			_, ok := n.SetString(strings.TrimPrefix(f[1], "bv"), 10)
			w := 0
			fmt.Sscanf(f[2], "%d", &w)
			return n, w, ok
		}
		return nil, 0, false
	default:
		_, ok := n.SetString(v, 10)
		return n, 0, ok
	}
}

type replayGen struct {
	P     *Program
	model string
	stmts []string
	ok    bool
	why   string
}

func (g *replayGen) typeName(t types.Type) (string, bool) {
	switch tt := t.(type) {
	case *types.Basic:
		return tt.Name(), true
	case *types.Named:
		if tt.Obj().Pkg() != nil && tt.Obj().Pkg().Path() == g.P.pkgPath && tt.TypeArgs().Len() == 0 {
			return tt.Obj().Name(), true
		}
	case *types.Alias:
		return g.typeName(types.Unalias(tt))
	}
	return "", false
}

// assign emits statements that give the Go lvalue `lv` of type t the value the model gives v.
func (g *replayGen) assign(lv string, t types.Type, v *Val) {
	if v == nil {
		g.ok, g.why = false, "no value for "+lv
		return
	}
	switch u := t.Underlying().(type) {
	case *types.Basic:
		tn, ok := g.typeName(t)
		if !ok || v.K != KScalar {
			g.ok, g.why = false, "type of "+lv+" is not replayable"
			return
		}
		if !symRe.MatchString(v.S) {
			// a literal term (e.g. a constant folded by the generator)
			if n, _, ok := smtNumber(v.S); ok && u.Info()&types.IsInteger != 0 {
				g.stmts = append(g.stmts, fmt.Sprintf("%s = %s(%s)", lv, tn, n.String()))
				return
			}
			g.ok, g.why = false, "value of "+lv+" is not a symbol: "+trunc(v.S, 60)
			return
		}
		mv, found := modelValue(g.model, v.S)
		switch {
		case u.Info()&types.IsBoolean != 0:
			if found && mv == "true" {
				g.stmts = append(g.stmts, fmt.Sprintf("%s = %s(true)", lv, tn))
			}
		case u.Info()&types.IsInteger != 0:
			if !found {
				return // don't-care: zero value
			}
			n, _, ok := smtNumber(mv)
			if !ok {
				g.ok, g.why = false, "cannot read model value "+mv
				return
			}
			bits := map[types.BasicKind]uint{types.Int8: 8, types.Int16: 16, types.Int32: 32, types.Int64: 64, types.Int: 64}
			if w, signed := bits[u.Kind()]; signed && n.Sign() >= 0 && n.BitLen() == int(w) {
				n.Sub(n, new(big.Int).Lsh(big.NewInt(1), w)) // two's complement
			}
			g.stmts = append(g.stmts, fmt.Sprintf("%s = %s(%s)", lv, tn, n.String()))
		default:
			g.ok, g.why = false, "type of "+lv+" is not replayable (strings, floats)"
		}
	case *types.Struct:
		if _, ok := g.typeName(t); !ok || v.K != KTuple || len(v.E) != u.NumFields() {
			g.ok, g.why = false, "type of "+lv+" is not replayable"
			return
		}
		for i := 0; i < u.NumFields(); i++ {
			g.assign(lv+"."+u.Field(i).Name(), u.Field(i).Type(), v.E[i])
		}
	default:
		g.ok, g.why = false, fmt.Sprintf("type %s of %s is not replayable (only scalars and structs of scalars)", t, lv)
	}
}

var panicKinds = map[string]bool{"nil": true, "index": true, "slice": true, "div": true, "tassert": true}

// autoReplay returns the path of the replay test and whether it failed on the real code.
func autoReplay(P *Program, repoDir, verifDir, prop string, r *FuncResult, o *Obligation) (string, string, bool) {
	if o.Status != "sat" || r == nil || r.Fn == nil || r.Fn.Parent() != nil || r.Fn.TypeParams().Len() > 0 {
		return "", "no model (solver status " + o.Status + ")", false
	}
	if !(o.Kind == "post" && o.Clause != nil) && !panicKinds[o.Kind] {
		return "", "obligation kind " + o.Kind + " has no executable oracle", false
	}
	fn := r.Fn
	g := &replayGen{P: P, model: o.Model, ok: true}
	var decls, callArgs []string
	recv := ""
	for i, p := range fn.Params {
		name := fmt.Sprintf("p%d", i)
		tn, ok := g.typeName(p.Type())
		if !ok {
			return "", fmt.Sprintf("parameter %s has type %s: only scalars and structs of scalars are replayed", p.Name(), p.Type()), false
		}
		decls = append(decls, fmt.Sprintf("var %s %s", name, tn))
		g.assign(name, p.Type(), r.Args[i])
		if i == 0 && fn.Signature.Recv() != nil {
			recv = name
		} else {
			callArgs = append(callArgs, name)
		}
	}
	if !g.ok {
		return "", g.why, false
	}
	call := fn.Name() + "(" + strings.Join(callArgs, ", ") + ")"
	if recv != "" {
		call = recv + "." + call
	}
	nres := fn.Signature.Results().Len()
	var rnames []string
	for i := 0; i < nres; i++ {
		rnames = append(rnames, fmt.Sprintf("r%d", i))
	}
	var b strings.Builder
	b.WriteString("//go:build verif\n\npackage " + P.tpkg.Name() + "\n\nimport (\n\t\"fmt\"\n\t\"testing\"\n)\n\n")
	fmt.Fprintf(&b, "// Replay of the solver's counterexample for obligation\n//   %s\n// generated by govc; injected with go test -overlay, nothing is written into the repository.\n", o.Name)
	b.WriteString("func TestGovcReplay(t *testing.T) {\n")
	for _, d := range decls {
		b.WriteString("\t" + d + "\n")
	}
	for _, s := range g.stmts {
		b.WriteString("\t" + s + "\n")
	}
	clauseCall := ""
	if o.Kind == "post" {
		ctr := P.cs.byKey[r.Key]
		var cargs []string
		for i, a := range o.Clause.Args {
			switch a.Kind {
			case "recv":
				cargs = append(cargs, "p0")
			case "param":
				base := 0
				if ctr != nil && ctr.RecvName != "" {
					base = 1
				}
				cargs = append(cargs, fmt.Sprintf("p%d", base+a.Idx))
			case "result":
				cargs = append(cargs, fmt.Sprintf("r%d", a.Idx))
			case "logical":
				lv := r.Logicals[a.Name]
				if lv == nil {
					return "", "logical variable " + a.Name + " has no value", false
				}
				name := fmt.Sprintf("l%d", i)
				tn, ok := g.typeName(lv.T)
				if !ok {
					return "", "logical variable " + a.Name + " is not a scalar", false
				}
				fmt.Fprintf(&b, "\tvar %s %s\n", name, tn)
				n0 := len(g.stmts)
				g.assign(name, lv.T, lv)
				for _, s := range g.stmts[n0:] {
					b.WriteString("\t" + s + "\n")
				}
				cargs = append(cargs, name)
			default:
				return "", "clause argument of kind " + a.Kind, false
			}
		}
		if !g.ok {
			return "", g.why, false
		}
		clauseCall = o.Clause.Fn + "(" + strings.Join(cargs, ", ") + ")"
	}
	b.WriteString("\tphase := \"call\"\n\tdefer func() {\n\t\tif r := recover(); r != nil {\n\t\t\tif phase == \"clause\" {\n\t\t\t\tfmt.Println(\"GOVC-REPLAY-INCONCLUSIVE: the clause is not executable:\", r)\n\t\t\t\treturn\n\t\t\t}\n\t\t\tt.Errorf(\"GOVC-REPLAY-FAILS: the real function panics on the solver's input: %v\", r)\n\t\t}\n\t}()\n")
	if nres > 0 {
		fmt.Fprintf(&b, "\t%s := %s\n", strings.Join(rnames, ", "), call)
		for _, rn := range rnames {
			fmt.Fprintf(&b, "\t_ = %s\n", rn)
		}
	} else {
		fmt.Fprintf(&b, "\t%s\n", call)
	}
	if clauseCall != "" {
		fmt.Fprintf(&b, "\tphase = \"clause\"\n\tif !%s {\n\t\tt.Errorf(\"GOVC-REPLAY-FAILS: postcondition %s is false on the real code for the solver's input\")\n\t}\n", clauseCall, strings.ReplaceAll(clauseName(o.Clause), "\"", "'"))
	} else {
		b.WriteString("\tfmt.Println(\"GOVC-REPLAY-INCONCLUSIVE: no panic on the solver's input\")\n")
	}
	b.WriteString("}\n")

	dir := filepath.Join(verifDir, "out", "replay", prop)
	os.MkdirAll(dir, 0o755)
	base := filepath.Join(dir, sanitize(o.Name))
	testFile := base + "_replay_test.go"
	genFile := base + "_clauses_verif.go"
	ovFile := base + "_overlay.json"
	os.WriteFile(testFile, []byte(b.String()), 0o644)
	os.WriteFile(genFile, []byte(P.genSrc), 0o644)
	ov := map[string]map[string]string{"Replace": {
		filepath.Join(P.pkgDir, "zz_govc_replay_test.go"):     testFile,
		filepath.Join(P.pkgDir, "zz_govc_generated_verif.go"): genFile,
	}}
	ob, _ := json.MarshalIndent(ov, "", " ")
	os.WriteFile(ovFile, ob, 0o644)
	cmd := exec.Command("go", "test", "-tags", "verif", "-overlay", ovFile, "-vet=off", "-count=1", "-timeout", "120s", "-run", "^TestGovcReplay$", ".")
	cmd.Dir = P.pkgDir
	cmd.Env = append(os.Environ(), "GOFLAGS=-mod=mod", "GOPROXY=off")
	done := make(chan struct{})
	var out []byte
	go func() { out, _ = cmd.CombinedOutput(); close(done) }()
	select {
	case <-done:
	case <-time.After(10 * time.Minute):
		if cmd.Process != nil {
			cmd.Process.Kill()
		}
		<-done
	}
	os.WriteFile(base+"_replay_output.txt", out, 0o644)
	so := string(out)
	switch {
	case strings.Contains(so, "GOVC-REPLAY-FAILS"):
		return testFile, "replayed: " + firstMatchLine(so, "GOVC-REPLAY-FAILS"), true
	case strings.Contains(so, "GOVC-REPLAY-INCONCLUSIVE"):
		return testFile, firstMatchLine(so, "GOVC-REPLAY-INCONCLUSIVE"), false
	case strings.Contains(so, "ok "):
		return testFile, "the real code satisfies the clause on the solver's input (model of an abstraction)", false
	}
	return testFile, "replay test did not build or run: " + trunc(so, 400), false
}

func firstMatchLine(s, sub string) string {
	for _, l := range strings.Split(s, "\n") {
		if strings.Contains(l, sub) {
			return strings.TrimSpace(l)
		}
	}
	return ""
}

var _ = ssa.Function{}
