package main

import (
	"fmt"
	"math/big"
	"sort"
	"strings"
	"sync"
)

// Script is the SMT-LIB text of one verification condition context (one function under
// verification). Obligations are cut points into this script: an obligation sees every
// declaration, definition and assumption emitted before it.
type Script struct {
	boundVars    [][2]string
	unregistered int // binders whose variables are not registered (no definitions under them)
	lines        []string
	nsym         int
	strLits      map[string]string // Go string literal -> SMT constant
	strList      []string
	decl         map[string]bool
	usesFP       bool
	bvMode       bool // Go int is (_ BitVec 64) instead of Int
	ufDecls      []string
	binder       int          // >0: terms may mention bound variables, so nothing is named at top level
	bridge       map[int]bool // widths for which nat<N> / bvof<N> (bit-vector <-> Int) are used
	info         []lineInfo
	defSyms      map[string][]string
	declared     map[string]bool
	mu           sync.Mutex
	boolDefs     map[string]string
}

func newScript(bv bool) *Script {
	s := &Script{strLits: map[string]string{}, decl: map[string]bool{}, bvMode: bv, bridge: map[int]bool{}}
	return s
}

func (s *Script) emit(format string, a ...interface{}) {
	s.lines = append(s.lines, fmt.Sprintf(format, a...))
}

func (s *Script) pos() int { return len(s.lines) }

func sanitize(n string) string {
	var b strings.Builder
	for _, r := range n {
		switch {
		case r >= 'a' && r <= 'z', r >= 'A' && r <= 'Z', r >= '0' && r <= '9', r == '_':
			b.WriteRune(r)
		case r == '.' || r == '/' || r == '*' || r == '[' || r == ']' || r == '|' || r == ' ' || r == '(' || r == ')' || r == '$' || r == '-' || r == ',' || r == '{' || r == '}' || r == ';':
			b.WriteByte('_')
		default:
			b.WriteString(fmt.Sprintf("x%x", r))
		}
	}
	return b.String()
}

// fresh returns a new symbol name with the given hint (not declared).
func (s *Script) fresh(hint string) string {
	s.nsym++
	h := sanitize(hint)
	if len(h) > 48 {
		h = h[len(h)-48:]
	}
	return fmt.Sprintf("g%d_%s", s.nsym, h)
}

// declare a fresh constant of the given sort.
func (s *Script) declare(hint string, sort string) string {
	n := s.fresh(hint)
	s.emit("(declare-fun %s () %s)", n, sort)
	return n
}

// define names a term so that later uses share it. Short terms are returned as is. Under a binder
// the definition takes the bound variables that occur in the term as parameters.
func (s *Script) define(hint string, sort string, term string) string {
	if len(term) < 40 || !strings.HasPrefix(term, "(") {
		return term
	}
	if s.binder > 0 {
		var params, names []string
		for _, b := range s.boundVars {
			if strings.Contains(term, b[0]) {
				params = append(params, "("+b[0]+" "+b[1]+")")
				names = append(names, b[0])
			}
		}
		if s.unregistered > 0 {
			return term
		}
		if len(params) > 0 {
			n := s.fresh(hint)
			s.emit("(define-fun %s (%s) %s %s)", n, strings.Join(params, " "), sort, term)
			return "(" + n + " " + strings.Join(names, " ") + ")"
		}
	}
	n := s.fresh(hint)
	s.emit("(define-fun %s () %s %s)", n, sort, term)
	if sort == "Bool" {
		if s.boolDefs == nil {
			s.boolDefs = map[string]string{}
		}
		s.boolDefs[n] = term
	}
	return n
}

// bind / unbind register bound variables (name, sort) of an enclosing quantifier.
func (s *Script) bind(vars [][2]string) {
	s.binder++
	s.boundVars = append(s.boundVars, vars...)
}

func (s *Script) unbind(n int) {
	s.binder--
	s.boundVars = s.boundVars[:len(s.boundVars)-n]
}

func (s *Script) assume(term string) {
	if term == "true" || s.binder > 0 {
		return
	}
	s.emit("(assert %s)", term)
}

func (s *Script) strLit(v string) string {
	if n, ok := s.strLits[v]; ok {
		return n
	}
	n := fmt.Sprintf("strlit%d", len(s.strLits))
	s.strLits[v] = n
	s.strList = append(s.strList, v)
	return n
}

// intSort is the sort of Go int, slice lengths and array indices.
func (s *Script) intSort() string {
	if s.bvMode {
		return "(_ BitVec 64)"
	}
	return "Int"
}

// ---- term helpers (strings are SMT terms) ----

func and(ts ...string) string {
	var out []string
	for _, t := range ts {
		if t == "true" {
			continue
		}
		if t == "false" {
			return "false"
		}
		out = append(out, t)
	}
	switch len(out) {
	case 0:
		return "true"
	case 1:
		return out[0]
	}
	return "(and " + strings.Join(out, " ") + ")"
}

func or(ts ...string) string {
	var out []string
	for _, t := range ts {
		if t == "false" {
			continue
		}
		if t == "true" {
			return "true"
		}
		out = append(out, t)
	}
	switch len(out) {
	case 0:
		return "false"
	case 1:
		return out[0]
	}
	return "(or " + strings.Join(out, " ") + ")"
}

func not(t string) string {
	switch t {
	case "true":
		return "false"
	case "false":
		return "true"
	}
	if strings.HasPrefix(t, "(not ") {
		return t[5 : len(t)-1]
	}
	return "(not " + t + ")"
}

func implies(a, b string) string {
	if a == "true" {
		return b
	}
	if a == "false" || b == "true" {
		return "true"
	}
	return "(=> " + a + " " + b + ")"
}

func ite(c, a, b string) string {
	if c == "true" {
		return a
	}
	if c == "false" {
		return b
	}
	if a == b {
		return a
	}
	// Boolean special cases (the literals only occur at sort Bool): keep the structure of && and ||
	switch {
	case b == "false":
		return and(c, a)
	case a == "true":
		return or(c, b)
	case a == "false":
		return and(not(c), b)
	case b == "true":
		return or(not(c), a)
	}
	return "(ite " + c + " " + a + " " + b + ")"
}

func eq(a, b string) string {
	if a == b {
		return "true"
	}
	return "(= " + a + " " + b + ")"
}

func sel(a, i string) string { return "(select " + a + " " + i + ")" }
func sto(a, i, v string) string {
	return "(store " + a + " " + i + " " + v + ")"
}

func bvSort(n int) string { return fmt.Sprintf("(_ BitVec %d)", n) }

func bvConst(v *big.Int, n int) string {
	m := new(big.Int).Lsh(big.NewInt(1), uint(n))
	x := new(big.Int).Mod(v, m)
	if x.Sign() < 0 {
		x.Add(x, m)
	}
	return fmt.Sprintf("(_ bv%s %d)", x.String(), n)
}

func intConst(v *big.Int) string {
	if v.Sign() < 0 {
		return "(- " + new(big.Int).Neg(v).String() + ")"
	}
	return v.String()
}

// iConst is a constant of the Go-int sort.
func (s *Script) iConst(n int64) string {
	if s.bvMode {
		return bvConst(big.NewInt(n), 64)
	}
	return intConst(big.NewInt(n))
}

func (s *Script) iAdd(a, b string) string {
	if s.bvMode {
		return "(bvadd " + a + " " + b + ")"
	}
	if b == "0" {
		return a
	}
	if a == "0" {
		return b
	}
	return "(+ " + a + " " + b + ")"
}

func (s *Script) iSub(a, b string) string {
	if s.bvMode {
		return "(bvsub " + a + " " + b + ")"
	}
	if b == "0" {
		return a
	}
	return "(- " + a + " " + b + ")"
}

func (s *Script) iLe(a, b string) string {
	if s.bvMode {
		return "(bvsle " + a + " " + b + ")"
	}
	return "(<= " + a + " " + b + ")"
}

func (s *Script) iLt(a, b string) string {
	if s.bvMode {
		return "(bvslt " + a + " " + b + ")"
	}
	return "(< " + a + " " + b + ")"
}

// header emits the fixed prelude.
func (s *Script) header(abstract bool) []string {
	var h []string
	var ws []int
	for w := range s.bridge {
		ws = append(ws, w)
	}
	sort.Ints(ws)
	for _, w := range ws {
		if w == -1 {
			// product of two naturals: uninterpreted in the abstract variant (keeps the arithmetic linear)
			if abstract {
				h = append(h, "(declare-fun natmul (Int Int) Int)")
			} else {
				h = append(h, "(define-fun natmul ((x Int) (y Int)) Int (* x y))")
			}
			continue
		}
		if abstract {
			// sound abstraction: the conversions are uninterpreted and constrained only by the lemma
			// instances emitted at their uses
			h = append(h, fmt.Sprintf("(declare-fun nat%d ((_ BitVec %d)) Int)", w, w), fmt.Sprintf("(declare-fun bvof%d (Int) (_ BitVec %d))", w, w))
		} else {
			h = append(h, fmt.Sprintf("(define-fun nat%d ((x (_ BitVec %d))) Int (bv2nat x))", w, w), fmt.Sprintf("(define-fun bvof%d ((x Int)) (_ BitVec %d) ((_ int2bv %d) x))", w, w, w))
		}
	}
	h = append(h, []string{
		"(declare-sort Str 0)",
		"(declare-fun strlen (Str) " + s.intSort() + ")",
		"(declare-fun strcat (Str Str) Str)",
		"(declare-fun strbyte (Str " + s.intSort() + ") (_ BitVec 8))",
	}...)
	h = append(h, s.ufDecls...)
	if len(s.strList) > 0 {
		var names []string
		for i, v := range s.strList {
			n := fmt.Sprintf("strlit%d", i)
			h = append(h, fmt.Sprintf("(declare-fun %s () Str) ; %q", n, trunc(v, 60)))
			h = append(h, fmt.Sprintf("(assert (= (strlen %s) %s))", n, s.iConst(int64(len(v)))))
			names = append(names, n)
		}
		if len(names) > 1 {
			h = append(h, "(assert (distinct "+strings.Join(names, " ")+"))")
		}
	}
	return h
}

func trunc(s string, n int) string {
	s = strings.ReplaceAll(s, "\n", " ")
	if len(s) > n {
		return s[:n] + "..."
	}
	return s
}

// query builds the SMT text for an obligation at script position p with goal g.
func (s *Script) query(p int, goal string, wantModel bool, abstract bool, depth int) string {
	var b strings.Builder
	b.WriteString("(set-option :produce-models true)\n")
	b.WriteString("(set-logic ALL)\n")
	for _, l := range s.header(abstract) {
		b.WriteString(l)
		b.WriteByte('\n')
	}
	keep := s.slice(p, goal, depth)
	for i, l := range s.lines[:p] {
		if keep != nil && !keep[i] {
			continue
		}
		b.WriteString(l)
		b.WriteByte('\n')
	}
	b.WriteString("(assert (not " + goal + "))\n")
	b.WriteString("(check-sat)\n")
	if wantModel {
		b.WriteString("(get-model)\n")
	}
	return b.String()
}

func sortedKeys(m map[string]string) []string {
	var ks []string
	for k := range m {
		ks = append(ks, k)
	}
	sort.Strings(ks)
	return ks
}

// ---- relevance slicing ----
//
// Dropping assumptions is sound for proving (the goal then holds under fewer hypotheses). slice
// keeps every declaration and definition, and only those assertions that are connected to the
// goal through at most depth steps of shared declared symbols. depth <= 0 keeps everything.

type lineInfo struct {
	kind string   // declare, define, assert, other
	name string   // declared / defined name
	syms []string // declared symbols mentioned (definitions expanded)
}

func tokens(l string) []string {
	var out []string
	cur := strings.Builder{}
	flush := func() {
		if cur.Len() > 0 {
			out = append(out, cur.String())
			cur.Reset()
		}
	}
	for _, c := range l {
		switch c {
		case '(', ')', ' ', '\t':
			flush()
		case ';':
			flush()
			return out
		default:
			cur.WriteRune(c)
		}
	}
	flush()
	return out
}

func (s *Script) analyse() {
	defs := map[string][]string{}
	decl := map[string]bool{}
	for i := len(s.info); i < len(s.lines); i++ {
		l := s.lines[i]
		toks := tokens(l)
		li := lineInfo{kind: "other"}
		if len(toks) >= 2 {
			switch toks[0] {
			case "declare-fun", "declare-const":
				li.kind, li.name = "declare", toks[1]
			case "define-fun":
				li.kind, li.name = "define", toks[1]
			case "assert":
				li.kind = "assert"
			}
		}
		s.info = append(s.info, li)
	}
	for i, li := range s.info {
		if li.kind == "declare" {
			decl[li.name] = true
		}
		_ = i
	}
	for i := range s.info {
		li := &s.info[i]
		if li.kind != "define" && li.kind != "assert" {
			continue
		}
		if li.syms != nil {
			if li.kind == "define" {
				defs[li.name] = li.syms
			}
			continue
		}
		set := map[string]bool{}
		start := 1
		if li.kind == "define" {
			start = 2
		}
		for _, t := range tokens(s.lines[i])[start:] {
			if decl[t] {
				set[t] = true
			} else if d, ok := defs[t]; ok {
				for _, x := range d {
					set[x] = true
				}
			}
		}
		li.syms = make([]string, 0, len(set))
		for k := range set {
			li.syms = append(li.syms, k)
		}
		if li.kind == "define" {
			defs[li.name] = li.syms
		}
	}
	s.defSyms = defs
	s.declared = decl
}

func (s *Script) slice(p int, goal string, depth int) []bool {
	if depth <= 0 {
		return nil
	}
	s.mu.Lock()
	if len(s.info) < len(s.lines) {
		s.analyse()
	}
	s.mu.Unlock()
	rel := map[string]bool{}
	addTok := func(t string) {
		if s.declared[t] {
			rel[t] = true
		} else if d, ok := s.defSyms[t]; ok {
			for _, x := range d {
				rel[x] = true
			}
		}
	}
	for _, t := range tokens(goal) {
		addTok(t)
	}
	keep := make([]bool, p)
	for i := 0; i < p; i++ {
		if s.info[i].kind != "assert" {
			keep[i] = true
		}
	}
	ubiq := func(n string) bool { return strings.HasSuffix(n, "_top0") || strings.HasSuffix(n, "_top") }
	for d := 0; d < depth; d++ {
		var add []string
		for i := 0; i < p; i++ {
			if keep[i] || s.info[i].kind != "assert" {
				continue
			}
			hit := false
			for _, sy := range s.info[i].syms {
				if rel[sy] && !ubiq(sy) {
					hit = true
					break
				}
			}
			if hit {
				keep[i] = true
				add = append(add, s.info[i].syms...)
			}
		}
		for _, a := range add {
			rel[a] = true
		}
	}
	return keep
}

// sexprArgs splits "(op a b c)" into op and its top-level arguments.
func sexprArgs(s string) (string, []string) {
	s = strings.TrimSpace(s)
	if len(s) < 2 || s[0] != '(' || s[len(s)-1] != ')' {
		return "", nil
	}
	body := s[1 : len(s)-1]
	var parts []string
	d := 0
	start := -1
	for i := 0; i < len(body); i++ {
		c := body[i]
		switch {
		case c == '(':
			if d == 0 && start < 0 {
				start = i
			}
			d++
		case c == ')':
			d--
			if d == 0 {
				parts = append(parts, body[start:i+1])
				start = -1
			}
		case c == ' ' || c == '\t' || c == '\n':
			if d == 0 && start >= 0 {
				parts = append(parts, body[start:i])
				start = -1
			}
		default:
			if d == 0 && start < 0 {
				start = i
			}
		}
	}
	if start >= 0 {
		parts = append(parts, body[start:])
	}
	if len(parts) == 0 {
		return "", nil
	}
	return parts[0], parts[1:]
}

// splitGoal breaks a goal into conjuncts: (and a b) and (=> p (and a b)).
func (s *Script) splitGoal(g string) []string {
	if d, ok := s.boolDefs[g]; ok {
		if parts := s.splitGoal(d); len(parts) > 1 {
			return parts
		}
		return []string{g}
	}
	op, args := sexprArgs(g)
	switch {
	case op == "and" && len(args) > 0:
		var out []string
		for _, a := range args {
			out = append(out, s.splitGoal(a)...)
		}
		return out
	case op == "=>" && len(args) == 2:
		var out []string
		for _, b := range s.splitGoal(args[1]) {
			out = append(out, implies(args[0], b))
		}
		return out
	}
	return []string{g}
}
