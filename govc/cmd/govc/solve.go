package main

import (
	"bytes"
	"context"
	"fmt"
	"os"
	"os/exec"
	"path/filepath"
	"runtime"
	"strings"
	"sync"
	"syscall"
	"time"
)

// solverSlots bounds the number of solver processes that run at the same time to the number of
// cores: a solver's time limit is only meaningful when it has a core to itself.
var solverSlots = make(chan struct{}, runtime.NumCPU())

type solverSpec struct {
	name string
	args func(file string, secs int) []string
}

var solvers = []solverSpec{
	{"z3-new", func(f string, s int) []string { return []string{"z3-new", fmt.Sprintf("-T:%d", s*wallFactor), f} }},
	{"z3", func(f string, s int) []string { return []string{"z3", fmt.Sprintf("-T:%d", s*wallFactor), f} }},
	{"cvc5", func(f string, s int) []string {
		return []string{"cvc5", fmt.Sprintf("--tlimit=%d", s*1000*wallFactor), "--produce-models", f}
	}},
}

// A solver's limit is CPU time (ulimit -t), so that an answer does not depend on what else the
// machine is doing; the wall-clock limit is wallFactor times larger and only a backstop.
const wallFactor = 6

// crossSecs: CPU seconds per solver for the cross-check of a proved query in the thorough tier.
const crossSecs = 20

// Machine-wide solver slots: concurrent govc processes (several checks started at once) share the
// cores through advisory locks on NumCPU files; without this every process would start NumCPU
// solvers of its own. The files are created on demand and carry no state.
var slotDir = filepath.Join(os.TempDir(), fmt.Sprintf("govc-slots-%d", os.Getuid()))

func acquireMachineSlot(ctx context.Context) *os.File {
	os.MkdirAll(slotDir, 0o755)
	n := runtime.NumCPU()
	start := int(time.Now().UnixNano() % int64(n))
	for {
		for i := 0; i < n; i++ {
			f, err := os.OpenFile(filepath.Join(slotDir, fmt.Sprintf("slot%d", (start+i)%n)), os.O_CREATE|os.O_RDWR, 0o644)
			if err != nil {
				return nil // no lock directory: run without machine-wide coordination
			}
			if syscall.Flock(int(f.Fd()), syscall.LOCK_EX|syscall.LOCK_NB) == nil {
				return f
			}
			f.Close()
		}
		select {
		case <-ctx.Done():
			return nil
		case <-time.After(25 * time.Millisecond):
		}
	}
}

func releaseMachineSlot(f *os.File) {
	if f != nil {
		syscall.Flock(int(f.Fd()), syscall.LOCK_UN)
		f.Close()
	}
}

// cpuLimitHit: the solver was ended by its CPU-time limit (SIGXCPU, or SIGKILL at the hard limit).
func cpuLimitHit(cmd *exec.Cmd) bool {
	if cmd.ProcessState == nil {
		return false
	}
	if ws, ok := cmd.ProcessState.Sys().(syscall.WaitStatus); ok && ws.Signaled() {
		return ws.Signal() == syscall.SIGXCPU || ws.Signal() == syscall.SIGKILL
	}
	return false
}

type solveResult struct {
	status string // unsat, sat, unknown
	solver string
	secs   float64
	out    string
	all    map[string]string
}

func firstLine(s string) string {
	s = strings.TrimSpace(s)
	if i := strings.Index(s, "\n"); i >= 0 {
		return strings.TrimSpace(s[:i])
	}
	return s
}

// runSolvers races the portfolio on one query. In quick mode the first "unsat" wins; a "sat"
// answer also ends the race (the obligation is refuted).
func runSolvers(query string, file string, secs int, thorough bool) solveResult {
	return runSolverSet(solvers, query, file, secs, thorough)
}

func runSolverSet(solvers []solverSpec, query string, file string, secs int, thorough bool) solveResult {
	if err := os.WriteFile(file, []byte(query), 0o644); err != nil {
		return solveResult{status: "error", out: err.Error()}
	}
	ctx, cancel := context.WithCancel(context.Background())
	defer cancel()
	type one struct {
		name, status, out string
		secs              float64
	}
	ch := make(chan one, len(solvers))
	for _, sp := range solvers {
		sp := sp
		go func() {
			select {
			case solverSlots <- struct{}{}:
			case <-ctx.Done():
				ch <- one{sp.name, "cancelled", "", 0}
				return
			}
			defer func() { <-solverSlots }()
			ms := acquireMachineSlot(ctx)
			defer releaseMachineSlot(ms)
			if ctx.Err() != nil {
				ch <- one{sp.name, "cancelled", "", 0}
				return
			}
			t0 := time.Now()
			a := sp.args(file, secs)
			sh := fmt.Sprintf("ulimit -t %d; exec \"$@\"", secs+1)
			cmd := exec.CommandContext(ctx, "/bin/sh", append([]string{"-c", sh, "sh"}, a...)...)
			var ob bytes.Buffer
			cmd.Stdout = &ob
			cmd.Stderr = &ob
			_ = cmd.Run()
			out := ob.String()
			st := firstLine(out)
			switch st {
			case "unsat", "sat":
			default:
				if strings.Contains(out, "timeout") || cpuLimitHit(cmd) {
					st = "timeout"
				} else if st != "unknown" {
					st = "error:" + trunc(st, 200)
				}
			}
			ch <- one{sp.name, st, out, time.Since(t0).Seconds()}
		}()
	}
	res := solveResult{status: "unknown", all: map[string]string{}}
	n := 0
	var satOut one
	haveSat := false
	for n < len(solvers) {
		o := <-ch
		n++
		res.all[o.name] = o.status
		if o.status == "unsat" && res.status != "unsat" {
			res.status, res.solver, res.secs = "unsat", o.name, o.secs
			if !thorough {
				return res
			}
		}
		if o.status == "sat" {
			haveSat = true
			satOut = o
			if !thorough {
				break
			}
		}
	}
	if haveSat {
		if res.status == "unsat" {
			res.status = "conflict"
			res.out = "solvers disagree: " + fmt.Sprint(res.all)
			return res
		}
		res.status, res.solver, res.secs, res.out = "sat", satOut.name, satOut.secs, satOut.out
		return res
	}
	if res.status != "unsat" {
		res.out = fmt.Sprint(res.all)
	}
	return res
}

// hints: obligation name -> strategy that proved it in an earlier run (committed file hints.json).
type hint struct {
	Stage  int    `json:"stage"`
	Solver string `json:"solver"`
}

var hints = map[string]hint{}

// runSolversOnly runs a single named solver.
func runSolversOnly(query, file string, secs int, name string) solveResult {
	saved := solvers
	var one []solverSpec
	for _, sp := range solvers {
		if sp.name == name {
			one = append(one, sp)
		}
	}
	if len(one) == 0 {
		return solveResult{status: "unknown"}
	}
	_ = saved
	return runSolverSet(one, query, file, secs, false)
}

// discharge runs all obligations in parallel.
func discharge(sc *Script, obls []*Obligation, outDir string, secs int, thorough bool, par int) {
	os.MkdirAll(outDir, 0o755)
	var wg sync.WaitGroup
	sem := make(chan struct{}, par)
	for i, o := range obls {
		wg.Add(1)
		sem <- struct{}{}
		go func(i int, o *Obligation) {
			defer wg.Done()
			defer func() { <-sem }()
			file := filepath.Join(outDir, fmt.Sprintf("o%04d.smt2", i))
			tag := "; obligation: " + o.Name + "  " + o.Src + "\n"
			// first with the bit-vector/Int conversions abstracted (fast, sound for proofs); only if
			// that does not prove the goal, with their exact definitions (needed for real models)
			// Stages: relevance-sliced queries first (sound: fewer hypotheses), then the full one; a
			// "sat" answer is only believed for the full query with exact definitions.
			var r solveResult
			abs := len(sc.bridge) > 0
			short := secs
			if short > 5 {
				short = 5
			}
			isCover := o.Kind == "cover" || o.Kind == "vacuity"
			stageQuery := func(stage int) (string, int) {
				switch stage {
				case 1, 2:
					return sc.query(o.Pos, o.Goal, false, abs, stage), short
				case 5:
					// a wider slice (relevance depth 4) for goals whose facts sit a few calls back in
					// functions whose full query is too large for the solvers
					return sc.query(o.Pos, o.Goal, false, abs, 4), secs
				case 3:
					return sc.query(o.Pos, o.Goal, false, true, 0), secs
				}
				return sc.query(o.Pos, o.Goal, true, false, 0), secs
			}
			done := false
			// strategy hint from an earlier run (which stage and solver proved this obligation): tried
			// first, alone; the full staged portfolio follows if it does not prove the goal now
			if h, ok := hints[o.Name]; ok && !isCover && h.Stage >= 1 && h.Stage <= 5 && (h.Stage != 3 || abs) {
				q, t := stageQuery(h.Stage)
				r = runSolversOnly(tag+q, file, t, h.Solver)
				if r.status == "unsat" {
					o.Stage = h.Stage
					done = true
				}
			}
			if !done && !isCover {
				for _, depth := range []int{1, 2} {
					q, t := stageQuery(depth)
					r = runSolvers(tag+q, file, t, false)
					if r.status == "unsat" {
						o.Stage = depth
						break
					}
				}
				if r.status != "unsat" && abs {
					q, t := stageQuery(3)
					r = runSolvers(tag+q, file, t, false)
					o.Stage = 3
				}
				if r.status != "unsat" && r.status != "sat" && len(sc.lines) > 3000 {
					q, t := stageQuery(5)
					r5 := runSolvers(tag+q, file, t, false)
					if r5.status == "unsat" {
						r = r5
						o.Stage = 5
						done = true
					}
				}
			}
			if !done && r.status != "unsat" {
				q, t := stageQuery(4)
				// the first definite answer settles the query (thorough tier: cross-checked below)
				r = runSolvers(tag+q, file, t, false)
				o.Stage = 4
			}
			if thorough && !isCover && r.status == "unsat" && o.Stage >= 1 {
				// Thorough tier: the query that was proved is given to the other solvers as well
				// (crossSecs CPU seconds each): none of them may answer "sat". A time-out of a
				// cross-check is not a disagreement.
				q, _ := stageQuery(o.Stage)
				var others []solverSpec
				for _, sp := range solvers {
					if sp.name != r.solver {
						others = append(others, sp)
					}
				}
				rc := runSolverSet(others, tag+q, file+".cross.smt2", crossSecs, true)
				os.Remove(file + ".cross.smt2")
				o.Cross = len(others)
				if rc.status == "sat" || rc.status == "conflict" {
					r.status = "conflict"
					r.out = "solvers disagree on the same query: " + r.solver + " unsat, cross-check " + fmt.Sprint(rc.all)
				} else {
					for _, st := range rc.all {
						if st == "unsat" {
							o.CrossAgree++
						}
					}
				}
			}
			if r.status != "unsat" && o.Except != "" && o.Kind != "cover" && o.Kind != "vacuity" {
				// known finding: does the obligation hold for every input outside the recorded ones?
				g2 := "(=> (not " + o.Except + ") " + o.Goal + ")"
				r2 := runSolvers(tag+sc.query(o.Pos, g2, false, abs, 0), file+".except.smt2", secs, thorough)
				if r2.status != "unsat" && abs {
					r2 = runSolvers(tag+sc.query(o.Pos, g2, false, false, 0), file+".except.smt2", secs, thorough)
				}
				if r2.status == "unsat" {
					r.status = "known"
					os.Remove(file + ".except.smt2")
				}
			}
			o.Status, o.Solver, o.Secs = r.status, r.solver, r.secs
			// keep the query of an obligation that failed (for a cover / vacuity guard: that was refuted)
			failed := (r.status != "unsat") != isCover
			if !failed && os.Getenv("GOVC_KEEP") == "" {
				os.Remove(file)
			}
			if r.status != "unsat" {
				o.Model = r.out
			}
		}(i, o)
	}
	wg.Wait()
}
