package main

import (
	"fmt"
	"go/types"
	"sort"
	"strings"

	"golang.org/x/tools/go/ssa"
)

// HeapSym is a (possibly not yet declared) array symbol for one heap component.
type HeapSym struct {
	name     string
	sort     string
	declared bool
	term     string // when non-empty the symbol is a defined term (store/ite), not a declared constant
	ref      bool
	dim      int // 1: Array Int S ; 2: Array Int (Array I S)
	top      string
}

type deferred struct {
	id    int
	cond  string
	block *ssa.BasicBlock
	call  func(st *State) // executes the deferred call on st
}

// State is the symbolic state at a program point.
type State struct {
	pc       string
	heap     map[string]*HeapSym
	cells    map[*Cell]*Val
	allocTop string
	defers   []deferred
	dead     bool
	gen      int // heap generation: components not in heap are the base symbols of this generation
}

func (s *State) clone() *State {
	n := &State{pc: s.pc, allocTop: s.allocTop, dead: s.dead, gen: s.gen}
	n.heap = make(map[string]*HeapSym, len(s.heap))
	for k, v := range s.heap {
		n.heap[k] = v
	}
	n.cells = make(map[*Cell]*Val, len(s.cells))
	for k, v := range s.cells {
		n.cells[k] = v
	}
	n.defers = append([]deferred(nil), s.defers...)
	return n
}

// ---- heap component keys ----
//
//	H|<root type>|<leaf path>   : (Array Int S)            objects of a root type, by reference
//	E|<elem type>|<leaf path>   : (Array Int (Array I S))  backing arrays of slices/arrays, by reference then absolute index
//	Mp|<map type>               : (Array Int (Array K Bool)) presence
//	Mv|<map type>|<leaf path>   : (Array Int (Array K S))
//	Mc|<map type>               : (Array Int I)            cardinality
//	L|<root type>|<field path>  : (Array Int Bool)         lock held by the current goroutine
//	G|<name>                    : ghost scalar (sort given at use)
type compInfo struct {
	sort string
	ref  bool
	dim  int
}

func (x *Exec) heapSym(st *State, key string, ci compInfo) *HeapSym {
	if h, ok := st.heap[key]; ok {
		return h
	}
	x.keyInfo[key] = ci
	return x.baseSym(key, st.gen, ci)
}

type genMerge struct {
	conds []string
	gens  []int
}

// baseSym is the symbol of a component that has not been written since generation gen began.
func (x *Exec) baseSym(key string, gen int, ci compInfo) *HeapSym {
	bk := fmt.Sprintf("%s#%d", key, gen)
	if h, ok := x.base[bk]; ok {
		return h
	}
	var h *HeapSym
	if gm, ok := x.genMerges[gen]; ok {
		t := x.use(x.baseSym(key, gm.gens[len(gm.gens)-1], ci))
		for i := len(gm.gens) - 2; i >= 0; i-- {
			t = ite(gm.conds[i], x.use(x.baseSym(key, gm.gens[i], ci)), t)
		}
		n := x.sc.fresh(key + "_gm")
		x.sc.emit("(define-fun %s () %s %s)", n, ci.sort, t)
		h = &HeapSym{name: n, sort: ci.sort, declared: true, ref: ci.ref, dim: ci.dim}
	} else {
		top := x.top0
		if t, ok := x.genTop[gen]; ok {
			top = t
		}
		h = &HeapSym{name: x.sc.fresh(fmt.Sprintf("%s_g%d", key, gen)), sort: ci.sort, ref: ci.ref, dim: ci.dim, top: top}
	}
	x.base[bk] = h
	x.baseOrder = append(x.baseOrder, bk)
	return h
}

// use returns the SMT term of a heap symbol, declaring it on first use.
func (x *Exec) use(h *HeapSym) string {
	if h.term != "" {
		return h.term
	}
	if !h.declared {
		h.declared = true
		x.sc.emit("(declare-fun %s () %s)", h.name, h.sort)
		if h.ref && h.top != "" && x.needFresh {
			x.emitFreshAxiom(h)
		} else if h.ref {
			x.pendingFresh = append(x.pendingFresh, h)
		}
	}
	return h.name
}

// emitFreshAxiom: every reference stored in this component is <= the allocation top at the time
// the component's contents were fixed (language-level fact: memory cannot point to objects that do
// not exist yet).
func (x *Exec) emitFreshAxiom(h *HeapSym) {
	if h.top == "" {
		return
	}
	switch h.dim {
	case 1:
		x.sc.emit("(assert (forall ((r Int)) (! (<= (select %s r) %s) :pattern ((select %s r)))))", h.name, h.top, h.name)
	case 2:
		idx := x.sc.intSort()
		if strings.HasPrefix(h.sort, "(Array Int (Array ") {
			// index sort of inner array
			inner := h.sort[len("(Array Int (Array "):]
			idx = firstSort(inner)
		}
		x.sc.emit("(assert (forall ((r Int) (i %s)) (! (<= (select (select %s r) i) %s) :pattern ((select (select %s r) i)))))", idx, h.name, h.top, h.name)
	}
}

// firstSort returns the first complete sort expression at the beginning of s.
func firstSort(s string) string {
	s = strings.TrimSpace(s)
	if !strings.HasPrefix(s, "(") {
		i := strings.IndexAny(s, " )")
		if i < 0 {
			return s
		}
		return s[:i]
	}
	d := 0
	for i, c := range s {
		if c == '(' {
			d++
		} else if c == ')' {
			d--
			if d == 0 {
				return s[:i+1]
			}
		}
	}
	return s
}

func (x *Exec) setHeap(st *State, key string, ci compInfo, term string) {
	x.keyInfo[key] = ci
	// fail-safe: a write inside a loop body must be covered by the loop's static write set
	// (otherwise the loop head did not forget the component and the encoding would be unsound)
	if x.spec == 0 && x.curBlock != nil {
		for li, keys := range x.loopStatic {
			if li.body[x.curBlock] && !keys[key] && !strings.HasPrefix(key, "R|") {
				panic(unsupported("internal: write to %s inside loop %d is not in the loop's static write set", key, li.ord))
			}
		}
	}
	n := x.sc.fresh(key)
	x.sc.emit("(define-fun %s () %s %s)", n, ci.sort, term)
	st.heap[key] = &HeapSym{name: n, sort: ci.sort, declared: true, ref: ci.ref, dim: ci.dim}
	if x.writeLog != nil {
		x.writeLog[key] = true
	}
}

// havocKey replaces a component by a fresh unconstrained symbol (declared lazily).
func (x *Exec) havocKey(st *State, key string, ci compInfo) {
	x.keyInfo[key] = ci
	st.heap[key] = &HeapSym{name: x.sc.fresh(key + "_h"), sort: ci.sort, ref: ci.ref, dim: ci.dim, top: st.allocTop}
}

func (x *Exec) hInfo(leaf Leaf) compInfo {
	return compInfo{sort: "(Array Int " + leaf.Sort + ")", ref: leaf.Ref, dim: 1}
}

func (x *Exec) eInfo(leaf Leaf) compInfo {
	return compInfo{sort: "(Array Int (Array " + x.sc.intSort() + " " + leaf.Sort + "))", ref: leaf.Ref, dim: 2}
}

// typeAtPath returns the type reached from root through struct field / array index path.
func typeAtPath(root types.Type, path []int) types.Type {
	t := root
	for _, i := range path {
		switch u := t.Underlying().(type) {
		case *types.Struct:
			t = u.Field(i).Type()
		case *types.Array:
			t = u.Elem()
		case *types.Tuple:
			t = u.At(i).Type()
		default:
			panic(fmt.Sprintf("typeAtPath: %s has no component %d", t, i))
		}
	}
	return t
}

func pathString(root types.Type, path []int) string {
	t := root
	var b strings.Builder
	for _, i := range path {
		switch u := t.Underlying().(type) {
		case *types.Struct:
			b.WriteString("." + u.Field(i).Name())
			t = u.Field(i).Type()
		case *types.Array:
			b.WriteString(fmt.Sprintf(".%d", i))
			t = u.Elem()
		case *types.Tuple:
			b.WriteString(fmt.Sprintf(".%d", i))
			t = u.At(i).Type()
		}
	}
	return b.String()
}

// ---- loads and stores through pointer shapes ----

func (x *Exec) load(st *State, p *Ptr) *Val {
	switch p.Kind {
	case PCell:
		v, ok := st.cells[p.Cell]
		if !ok {
			v = x.zero(p.Cell.T)
			st.cells[p.Cell] = v
		}
		for _, i := range p.Path {
			if v.K != KTuple {
				panic(unsupported("path into non-tuple cell value"))
			}
			v = v.E[i]
		}
		return v
	case PHeap:
		t := typeAtPath(p.Root, p.Path)
		prefix := pathString(p.Root, p.Path)
		ls := x.leaves(t)
		ts := make([]string, len(ls))
		for i, l := range ls {
			key := "H|" + typeKey(p.Root) + "|" + prefix + l.Path
			h := x.heapSym(st, key, x.hInfo(l))
			ts[i] = sel(x.use(h), p.Ref)
		}
		x.checkGuard(st, p, false)
		v, _ := x.unflatten(t, ts)
		x.wfLoaded(st, v)
		return v
	case PElem:
		t := typeAtPath(p.Root, p.Path)
		prefix := pathString(p.Root, p.Path)
		ls := x.leaves(t)
		ts := make([]string, len(ls))
		for i, l := range ls {
			key := "E|" + typeKey(p.Root) + "|" + prefix + l.Path
			h := x.heapSym(st, key, x.eInfo(l))
			ts[i] = sel(sel(x.use(h), p.Ref), p.Idx)
		}
		v, _ := x.unflatten(t, ts)
		x.wfLoaded(st, v)
		return v
	}
	panic("load")
}

// wfLoaded assumes slice well-formedness for values read from the heap (a language invariant).
func (x *Exec) wfLoaded(st *State, v *Val) {
	if x.sc.binder > 0 {
		return
	}
	switch v.K {
	case KTuple:
		for _, e := range v.E {
			x.wfLoaded(st, e)
		}
	case KSlice:
		// name the loaded header so the facts attach to short terms
		for i := range v.E {
			v.E[i] = scalar(v.E[i].T, x.sc.define("ld", v.E[i].Srt, v.E[i].S), v.E[i].Srt)
		}
		z := x.sc.iConst(0)
		// guarded by the path condition: on other paths the loaded term may denote a value that was
		// never stored (e.g. a reslice that only happens when the slice is non-empty)
		x.sc.assume(implies(x.guard(st), and(x.sc.iLe(z, v.E[1].S), x.sc.iLe(z, v.E[2].S), x.sc.iLe(v.E[2].S, v.E[3].S), "(>= "+v.E[0].S+" 0)",
			x.sc.iLe(v.E[1].S, x.sc.iConst(1<<40)), x.sc.iLe(v.E[3].S, x.sc.iConst(1<<40)),
			// a nil slice has no capacity (hence no elements)
			implies(eq(v.E[0].S, "0"), eq(v.E[3].S, z)))))
	case KIface:
		x.sc.assume(implies(x.guard(st), and("(>= "+v.E[0].S+" 0)", "(>= "+v.E[1].S+" 0)")))
	case KPtr:
		if v.P.Kind == PHeap {
			x.sc.assume(implies(x.guard(st), "(>= "+v.P.Ref+" 0)"))
		}
	case KScalar:
		if v.T != nil {
			switch v.T.Underlying().(type) {
			case *types.Map, *types.Chan:
				x.sc.assume(implies(x.guard(st), "(>= "+v.S+" 0)"))
			case *types.Basic:
				// a Go int / uint held in memory is a 64-bit machine integer
				if !x.sc.bvMode && v.Srt == "Int" && isGoInt(v.T) && strings.HasPrefix(v.S, "(select") {
					if isSigned(v.T) {
						x.sc.assume(implies(x.guard(st), and("(<= (- 9223372036854775808) "+v.S+")", "(<= "+v.S+" 9223372036854775807)")))
					} else {
						x.sc.assume(implies(x.guard(st), and("(<= 0 "+v.S+")", "(<= "+v.S+" 18446744073709551615)")))
					}
				}
			}
		}
	}
}

func setPath(v *Val, path []int, nv *Val) *Val {
	if len(path) == 0 {
		return nv
	}
	if v.K != KTuple {
		panic(unsupported("store path into non-tuple"))
	}
	c := *v
	c.E = append([]*Val(nil), v.E...)
	c.E[path[0]] = setPath(v.E[path[0]], path[1:], nv)
	return &c
}

func (x *Exec) store(st *State, p *Ptr, v *Val) {
	switch p.Kind {
	case PCell:
		cur, ok := st.cells[p.Cell]
		if !ok {
			cur = x.zero(p.Cell.T)
		}
		st.cells[p.Cell] = setPath(cur, p.Path, v)
	case PHeap:
		t := typeAtPath(p.Root, p.Path)
		prefix := pathString(p.Root, p.Path)
		ls := x.leaves(t)
		ts := x.flatten(st, v)
		if len(ts) != len(ls) {
			panic(fmt.Sprintf("store: %d terms for %d leaves of %s", len(ts), len(ls), t))
		}
		x.checkGuard(st, p, true)
		for i, l := range ls {
			key := "H|" + typeKey(p.Root) + "|" + prefix + l.Path
			ci := x.hInfo(l)
			h := x.heapSym(st, key, ci)
			x.freshCheck(st, key, p.Ref, x.curPos)
			x.setHeap(st, key, ci, sto(x.use(h), p.Ref, ts[i]))
		}
	case PElem:
		t := typeAtPath(p.Root, p.Path)
		prefix := pathString(p.Root, p.Path)
		ls := x.leaves(t)
		ts := x.flatten(st, v)
		for i, l := range ls {
			key := "E|" + typeKey(p.Root) + "|" + prefix + l.Path
			ci := x.eInfo(l)
			h := x.heapSym(st, key, ci)
			a := x.use(h)
			x.freshCheck(st, key, p.Ref, x.curPos)
			x.setHeap(st, key, ci, sto(a, p.Ref, sto(sel(a, p.Ref), p.Idx, ts[i])))
		}
	}
}

// alloc returns a fresh reference.
func (x *Exec) alloc(st *State) string {
	x.needFreshNow()
	n := x.sc.fresh("ref")
	x.sc.emit("(define-fun %s () Int (+ %s 1))", n, st.allocTop)
	// fewer than 2^62 objects are ever allocated (object identities fit machine words)
	x.sc.emit("(assert (< %s 4611686018427387904))", n)
	st.allocTop = n
	return n
}

func (x *Exec) needFreshNow() {
	if !x.needFresh {
		x.needFresh = true
		for _, h := range x.pendingFresh {
			x.emitFreshAxiom(h)
		}
		x.pendingFresh = nil
	}
}

// ---- merging ----

func (x *Exec) mergeVals(conds []string, vals []*Val) *Val {
	v0 := vals[0]
	same := true
	for _, v := range vals[1:] {
		if v != v0 {
			same = false
		}
	}
	if same {
		return v0
	}
	switch v0.K {
	case KScalar:
		if v0.Srt == "" {
			return v0
		}
		t := vals[len(vals)-1].S
		for i := len(vals) - 2; i >= 0; i-- {
			t = ite(conds[i], vals[i].S, t)
		}
		return scalar(v0.T, x.sc.defineB(x, "phi", v0.Srt, t), v0.Srt)
	case KTuple, KSlice, KIface:
		out := &Val{K: v0.K, T: v0.T}
		for i := range v0.E {
			var sub []*Val
			for _, v := range vals {
				if v.K != v0.K || len(v.E) != len(v0.E) {
					panic(unsupported("merge of different shapes"))
				}
				sub = append(sub, v.E[i])
			}
			out.E = append(out.E, x.mergeVals(conds, sub))
		}
		return out
	case KPtr:
		var refs []*Val
		for _, v := range vals {
			if v.K != KPtr {
				panic(unsupported("merge ptr with non-ptr"))
			}
			if v.P.Kind == PCell {
				if v.P.Cell == v0.P.Cell && fmt.Sprint(v.P.Path) == fmt.Sprint(v0.P.Path) {
					continue
				}
				panic(unsupported("merge of local cell pointers"))
			}
			if v.P.Kind != PHeap || len(v.P.Path) != 0 || v0.P.Kind != PHeap {
				panic(unsupported("merge of interior pointers"))
			}
			refs = append(refs, scalar(nil, v.P.Ref, "Int"))
		}
		if len(refs) == 0 {
			return v0
		}
		if len(refs) != len(vals) {
			panic(unsupported("merge of mixed pointers"))
		}
		r := x.mergeVals(conds, refs)
		root := v0.P.Root
		return &Val{K: KPtr, T: v0.T, P: &Ptr{Kind: PHeap, Ref: r.S, Root: root}}
	case KFunc:
		for _, v := range vals {
			if v.K != KFunc || v.Fn == nil || v0.Fn == nil || v.Fn.Fn != v0.Fn.Fn {
				return &Val{K: KFunc, T: v0.T, Fn: &FuncVal{Opaque: "0"}}
			}
		}
		return v0
	}
	panic("mergeVals")
}

// defineB defines a shared name unless we are under a binder (then terms stay inline).
func (s *Script) defineB(x *Exec, hint, sort, term string) string {
	return s.define(hint, sort, term)
}

// mergeStates joins states reaching a block; conds[i] is the condition under which states[i] is taken.
func (x *Exec) mergeStates(conds []string, states []*State) *State {
	if len(states) == 1 {
		s := states[0].clone()
		s.pc = conds[0]
		return s
	}
	out := &State{heap: map[string]*HeapSym{}, cells: map[*Cell]*Val{}}
	out.pc = x.sc.defineB(x, "pc", "Bool", or(conds...))
	out.gen = states[0].gen
	for _, s := range states[1:] {
		if s.gen != out.gen {
			x.gens++
			out.gen = x.gens
			gm := genMerge{conds: conds}
			for _, s2 := range states {
				gm.gens = append(gm.gens, s2.gen)
			}
			x.genMerges[out.gen] = gm
			break
		}
	}
	// heap
	keys := map[string]bool{}
	for _, s := range states {
		for k := range s.heap {
			keys[k] = true
		}
	}
	var ks []string
	for k := range keys {
		ks = append(ks, k)
	}
	sort.Strings(ks)
	for _, k := range ks {
		var syms []*HeapSym
		same := true
		for _, s := range states {
			h, ok := s.heap[k]
			if !ok {
				ci, known := x.keyInfo[k]
				if !known {
					for _, s2 := range states {
						if h2, ok := s2.heap[k]; ok {
							ci = compInfo{sort: h2.sort, ref: h2.ref, dim: h2.dim}
							break
						}
					}
				}
				h = x.heapSym(s, k, ci)
			}
			syms = append(syms, h)
			if h != syms[0] {
				same = false
			}
		}
		if same {
			out.heap[k] = syms[0]
			continue
		}
		t := x.use(syms[len(syms)-1])
		for i := len(syms) - 2; i >= 0; i-- {
			t = ite(conds[i], x.use(syms[i]), t)
		}
		n := x.sc.fresh(k + "_m")
		x.sc.emit("(define-fun %s () %s %s)", n, syms[0].sort, t)
		out.heap[k] = &HeapSym{name: n, sort: syms[0].sort, declared: true, ref: syms[0].ref, dim: syms[0].dim}
	}
	// cells
	cellSet := map[*Cell]bool{}
	var cells []*Cell
	for _, s := range states {
		for c := range s.cells {
			if !cellSet[c] {
				cellSet[c] = true
				cells = append(cells, c)
			}
		}
	}
	sort.Slice(cells, func(i, j int) bool { return cells[i].id < cells[j].id })
	for _, c := range cells {
		var vs []*Val
		for _, s := range states {
			v, ok := s.cells[c]
			if !ok {
				v = x.zero(c.T)
			}
			vs = append(vs, v)
		}
		out.cells[c] = x.mergeVals(conds, vs)
	}
	// allocTop
	var tops []*Val
	for _, s := range states {
		tops = append(tops, scalar(nil, s.allocTop, "Int"))
	}
	out.allocTop = x.mergeVals(conds, tops).S
	// defers: must agree structurally (same prefix); take the longest and guard by conds
	out.defers = x.mergeDefers(conds, states)
	return out
}

func (x *Exec) mergeDefers(conds []string, states []*State) []deferred {
	// Deferred calls registered on only some incoming paths are kept with their own condition.
	var out []deferred
	seen := map[string]bool{}
	for _, s := range states {
		for _, d := range s.defers {
			k := fmt.Sprintf("%d", d.id)
			if !seen[k] {
				seen[k] = true
				out = append(out, d)
			}
		}
	}
	return out
}

// guard is the condition under which the current evaluation point is reached: the path condition
// of the state, and the path conditions of the enclosing evaluations (clause functions are
// evaluated with a local path condition of true).
func (x *Exec) guard(st *State) string {
	parts := append([]string{}, x.guards...)
	parts = append(parts, st.pc)
	return and(parts...)
}
