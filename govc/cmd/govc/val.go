package main

import (
	"fmt"
	"go/types"
	"math/big"
	"regexp"
	"strings"

	"golang.org/x/tools/go/ssa"
)

type Kind int

const (
	KScalar Kind = iota // ints, bools, strings, floats, map refs, chan refs, opaque
	KTuple              // struct, tuple, small array: E = elements
	KSlice              // E = ptr, off, len, cap (scalars)
	KIface              // E = tag, ref (scalars)
	KFunc               // static function value (or unknown)
	KPtr                // pointer shape
)

type Val struct {
	K   Kind
	T   types.Type
	S   string // scalar term
	Srt string // scalar sort
	E   []*Val
	Fn  *FuncVal
	P   *Ptr
	// lazily boxed interface payload (K == KIface, E[1].S == "" until materialized)
	box  *Val
	boxT types.Type
}

type FuncVal struct {
	Fn       *ssa.Function // nil when unknown
	Bindings []*Val
	Opaque   string // term for unknown function values (Int)
	Harmless bool   // opaque function known to have no effect on modelled state (context cancel funcs)
}

type PtrKind int

const (
	PHeap PtrKind = iota // pointer into a heap object of type Root (Ref), at field Path
	PCell                // pointer into a generator-side local cell at Path
	PElem                // pointer to element Idx (absolute) of backing array Ref with element type Root, at field Path
)

type Ptr struct {
	Kind PtrKind
	Ref  string
	Root types.Type
	Path []int
	Cell *Cell
	Idx  string
}

type Cell struct {
	id   int
	T    types.Type
	name string
}

func scalar(t types.Type, term, srt string) *Val { return &Val{K: KScalar, T: t, S: term, Srt: srt} }

func (v *Val) String() string {
	switch v.K {
	case KScalar:
		return v.S
	case KTuple:
		var p []string
		for _, e := range v.E {
			p = append(p, e.String())
		}
		return "{" + strings.Join(p, ",") + "}"
	case KSlice:
		return fmt.Sprintf("slice(%s,%s,%s,%s)", v.E[0].S, v.E[1].S, v.E[2].S, v.E[3].S)
	case KIface:
		return fmt.Sprintf("iface(%s,%s)", v.E[0].S, v.E[1].S)
	case KFunc:
		if v.Fn != nil && v.Fn.Fn != nil {
			return "func:" + v.Fn.Fn.String()
		}
		return "func?"
	case KPtr:
		return fmt.Sprintf("ptr(%d,%s,%v)", v.P.Kind, v.P.Ref, v.P.Path)
	}
	return "?"
}

// ---- type layout ----

// Leaf describes one scalar component of a flattened Go value.
type Leaf struct {
	Path string // e.g. ".freePool.len"
	Sort string
	Ref  bool // carries an object reference (subject to the freshness axiom)
}

// opaque named types: modelled as a single abstract scalar (or nothing).
var opaqueTypes = map[string]string{
	"sync.Mutex":     "",
	"sync.RWMutex":   "",
	"sync.Once":      "",
	"sync.WaitGroup": "",
	"sync.Map":       "",
	"time.Time":      "(_ BitVec 64)",
	"time.Location":  "",
	"math/rand.Rand": "",
}

var aliasRe = regexp.MustCompile(`\b(byte|rune|any)\b`)

// typeKey is the canonical name of a type (predeclared aliases resolved, so []byte and []uint8
// share their heap components).
func typeKey(t types.Type) string {
	s := types.TypeString(t, nil)
	if strings.Contains(s, "byte") || strings.Contains(s, "rune") || strings.Contains(s, "any") {
		s = aliasRe.ReplaceAllStringFunc(s, func(m string) string {
			switch m {
			case "byte":
				return "uint8"
			case "rune":
				return "int32"
			}
			return "interface{}"
		})
	}
	return s
}

func opaqueSort(t types.Type) (string, bool) {
	if n, ok := t.(*types.Named); ok {
		if n.Obj().Pkg() != nil {
			k := n.Obj().Pkg().Path() + "." + n.Obj().Name()
			if s, ok := opaqueTypes[k]; ok {
				return s, true
			}
		}
	}
	return "", false
}

func (x *Exec) scalarSort(t types.Type) (string, bool) {
	if s, ok := opaqueSort(t); ok && s != "" {
		return s, true
	}
	switch u := t.Underlying().(type) {
	case *types.Basic:
		switch u.Kind() {
		case types.Bool, types.UntypedBool:
			return "Bool", true
		case types.String, types.UntypedString:
			return "Str", true
		case types.Int, types.Uint, types.Uintptr, types.UntypedInt, types.UntypedRune:
			return x.sc.intSort(), true
		case types.Int8, types.Uint8:
			return bvSort(8), true
		case types.Int16, types.Uint16:
			return bvSort(16), true
		case types.Int32, types.Uint32:
			return bvSort(32), true
		case types.Int64, types.Uint64:
			return bvSort(64), true
		case types.Float64, types.UntypedFloat:
			x.sc.usesFP = true
			return "(_ FloatingPoint 11 53)", true
		case types.Float32:
			x.sc.usesFP = true
			return "(_ FloatingPoint 8 24)", true
		case types.UnsafePointer:
			return "Int", true
		case types.UntypedNil:
			return "Int", true
		}
	case *types.Map, *types.Chan:
		return "Int", true
	}
	return "", false
}

func isSigned(t types.Type) bool {
	if b, ok := t.Underlying().(*types.Basic); ok {
		return b.Info()&types.IsInteger != 0 && b.Info()&types.IsUnsigned == 0
	}
	return false
}

func isGoInt(t types.Type) bool {
	if b, ok := t.Underlying().(*types.Basic); ok {
		switch b.Kind() {
		case types.Int, types.Uint, types.Uintptr, types.UntypedInt, types.UntypedRune:
			return true
		}
	}
	return false
}

func bitWidth(t types.Type) int {
	if b, ok := t.Underlying().(*types.Basic); ok {
		switch b.Kind() {
		case types.Int8, types.Uint8:
			return 8
		case types.Int16, types.Uint16:
			return 16
		case types.Int32, types.Uint32:
			return 32
		case types.Int64, types.Uint64, types.Int, types.Uint, types.Uintptr:
			return 64
		}
	}
	return 0
}

const maxArrayTuple = 8

// leaves flattens type t into scalar leaves.
func (x *Exec) leaves(t types.Type) []Leaf {
	k := typeKey(t)
	if l, ok := x.leafCache[k]; ok {
		return l
	}
	x.leafCache[k] = nil // recursion guard
	var out []Leaf
	if s, ok := opaqueSort(t); ok {
		if s != "" {
			out = []Leaf{{"", s, false}}
		}
		x.leafCache[k] = out
		return out
	}
	if s, ok := x.scalarSort(t); ok {
		_, isMap := t.Underlying().(*types.Map)
		_, isChan := t.Underlying().(*types.Chan)
		out = []Leaf{{"", s, isMap || isChan}}
		x.leafCache[k] = out
		return out
	}
	I := x.sc.intSort()
	switch u := t.Underlying().(type) {
	case *types.Pointer:
		out = []Leaf{{"", "Int", true}}
	case *types.Signature:
		out = []Leaf{{"", "Int", false}}
	case *types.Interface:
		out = []Leaf{{".tag", "Int", false}, {".ref", "Int", true}}
	case *types.Slice:
		out = []Leaf{{".ptr", "Int", true}, {".off", I, false}, {".len", I, false}, {".cap", I, false}}
	case *types.Struct:
		for i := 0; i < u.NumFields(); i++ {
			f := u.Field(i)
			for _, l := range x.leaves(f.Type()) {
				out = append(out, Leaf{"." + f.Name() + l.Path, l.Sort, l.Ref})
			}
		}
	case *types.Tuple:
		for i := 0; i < u.Len(); i++ {
			for _, l := range x.leaves(u.At(i).Type()) {
				out = append(out, Leaf{fmt.Sprintf(".%d%s", i, l.Path), l.Sort, l.Ref})
			}
		}
	case *types.Array:
		if u.Len() > maxArrayTuple {
			panic(unsupported("array value of length %d", u.Len()))
		}
		for i := int64(0); i < u.Len(); i++ {
			for _, l := range x.leaves(u.Elem()) {
				out = append(out, Leaf{fmt.Sprintf(".%d%s", i, l.Path), l.Sort, l.Ref})
			}
		}
	default:
		panic(unsupported("type %s", t))
	}
	x.leafCache[k] = out
	return out
}

// flatten turns a value into its leaf terms, in the order of leaves(v.T).
func (x *Exec) flatten(st *State, v *Val) []string {
	switch v.K {
	case KScalar:
		if v.Srt == "" {
			return nil
		}
		return []string{v.S}
	case KTuple:
		var out []string
		for _, e := range v.E {
			out = append(out, x.flatten(st, e)...)
		}
		return out
	case KSlice, KIface:
		if v.K == KIface {
			x.materialize(st, v)
		}
		var out []string
		for _, e := range v.E {
			out = append(out, e.S)
		}
		return out
	case KFunc:
		if v.Fn != nil && v.Fn.Opaque != "" {
			return []string{v.Fn.Opaque}
		}
		if v.Fn == nil || v.Fn.Fn == nil {
			return []string{"0"}
		}
		return []string{x.funcID(v.Fn.Fn)}
	case KPtr:
		if v.P.Kind == PHeap && len(v.P.Path) == 0 {
			return []string{v.P.Ref}
		}
		panic(unsupported("interior or local pointer escapes (%s)", v))
	}
	panic("flatten")
}

func (x *Exec) funcID(fn *ssa.Function) string {
	if id, ok := x.funcIDs[fn]; ok {
		return id
	}
	id := fmt.Sprintf("%d", 1000+len(x.funcIDs))
	x.funcIDs[fn] = id
	return id
}

// unflatten rebuilds a value of type t from leaf terms; returns remaining terms.
func (x *Exec) unflatten(t types.Type, ts []string) (*Val, []string) {
	if s, ok := opaqueSort(t); ok {
		if s == "" {
			return &Val{K: KScalar, T: t}, ts
		}
		return scalar(t, ts[0], s), ts[1:]
	}
	if s, ok := x.scalarSort(t); ok {
		return scalar(t, ts[0], s), ts[1:]
	}
	I := x.sc.intSort()
	switch u := t.Underlying().(type) {
	case *types.Pointer:
		return &Val{K: KPtr, T: t, P: &Ptr{Kind: PHeap, Ref: ts[0], Root: u.Elem()}}, ts[1:]
	case *types.Signature:
		return &Val{K: KFunc, T: t, Fn: &FuncVal{Opaque: ts[0]}}, ts[1:]
	case *types.Interface:
		return &Val{K: KIface, T: t, E: []*Val{scalar(nil, ts[0], "Int"), scalar(nil, ts[1], "Int")}}, ts[2:]
	case *types.Slice:
		return &Val{K: KSlice, T: t, E: []*Val{scalar(nil, ts[0], "Int"), scalar(nil, ts[1], I), scalar(nil, ts[2], I), scalar(nil, ts[3], I)}}, ts[4:]
	case *types.Struct:
		v := &Val{K: KTuple, T: t}
		for i := 0; i < u.NumFields(); i++ {
			var e *Val
			e, ts = x.unflatten(u.Field(i).Type(), ts)
			v.E = append(v.E, e)
		}
		return v, ts
	case *types.Tuple:
		v := &Val{K: KTuple, T: t}
		for i := 0; i < u.Len(); i++ {
			var e *Val
			e, ts = x.unflatten(u.At(i).Type(), ts)
			v.E = append(v.E, e)
		}
		return v, ts
	case *types.Array:
		v := &Val{K: KTuple, T: t}
		for i := int64(0); i < u.Len(); i++ {
			var e *Val
			e, ts = x.unflatten(u.Elem(), ts)
			v.E = append(v.E, e)
		}
		return v, ts
	}
	panic(unsupported("unflatten %s", t))
}

// zeroLeaf is the zero value of a leaf sort.
func (x *Exec) zeroOfSort(srt string) string {
	switch {
	case srt == "Int":
		return "0"
	case srt == "Bool":
		return "false"
	case srt == "Str":
		return x.sc.strLit("")
	case strings.HasPrefix(srt, "(_ BitVec "):
		var n int
		fmt.Sscanf(srt, "(_ BitVec %d)", &n)
		return bvConst(big.NewInt(0), n)
	case strings.HasPrefix(srt, "(_ FloatingPoint 11"):
		return "(_ +zero 11 53)"
	case strings.HasPrefix(srt, "(_ FloatingPoint 8"):
		return "(_ +zero 8 24)"
	}
	panic("zeroOfSort " + srt)
}

func (x *Exec) zero(t types.Type) *Val {
	ls := x.leaves(t)
	ts := make([]string, len(ls))
	for i, l := range ls {
		ts[i] = x.zeroOfSort(l.Sort)
	}
	v, _ := x.unflatten(t, ts)
	return v
}

// freshVal declares an unconstrained value of type t (plus well-formedness assumptions).
func (x *Exec) freshVal(t types.Type, hint string) *Val {
	ls := x.leaves(t)
	ts := make([]string, len(ls))
	for i, l := range ls {
		ts[i] = x.sc.declare(hint+l.Path, l.Sort)
	}
	v, _ := x.unflatten(t, ts)
	x.assumeWF(v, "true")
	return v
}

// assumeWF adds language-level well-formedness facts of a value that entered the VC from outside
// (parameter, heap load, call result): slice bounds, reference freshness, int range.
func (x *Exec) assumeWF(v *Val, guard string) {
	if x.sc.binder > 0 {
		return
	}
	switch v.K {
	case KTuple:
		for _, e := range v.E {
			x.assumeWF(e, guard)
		}
	case KSlice:
		z := x.sc.iConst(0)
		x.sc.assume(implies(guard, and(x.sc.iLe(z, v.E[1].S), x.sc.iLe(z, v.E[2].S), x.sc.iLe(v.E[2].S, v.E[3].S), "(>= "+v.E[0].S+" 0)",
			x.sc.iLe(v.E[1].S, x.sc.iConst(1<<40)), x.sc.iLe(v.E[3].S, x.sc.iConst(1<<40)),
			// a nil slice has no capacity (hence no elements)
			implies(eq(v.E[0].S, "0"), eq(v.E[3].S, z)))))
		x.refKnown(v.E[0].S, guard)
	case KIface:
		x.sc.assume(implies(guard, "(>= "+v.E[0].S+" 0)"))
		x.sc.assume(implies(guard, "(>= "+v.E[1].S+" 0)"))
		x.sc.assume(implies(guard, implies(eq(v.E[0].S, "0"), eq(v.E[1].S, "0"))))
		x.refKnown(v.E[1].S, guard)
	case KPtr:
		if v.P.Kind == PHeap {
			x.sc.assume(implies(guard, "(>= "+v.P.Ref+" 0)"))
			x.refKnown(v.P.Ref, guard)
		}
	case KScalar:
		if v.T == nil {
			return
		}
		switch v.T.Underlying().(type) {
		case *types.Map, *types.Chan:
			x.sc.assume(implies(guard, "(>= "+v.S+" 0)"))
			x.refKnown(v.S, guard)
		case *types.Basic:
			if isGoInt(v.T) && !x.sc.bvMode {
				if isSigned(v.T) {
					x.sc.assume(implies(guard, and("(<= (- 9223372036854775808) "+v.S+")", "(<= "+v.S+" 9223372036854775807)")))
				} else {
					x.sc.assume(implies(guard, and("(<= 0 "+v.S+")", "(<= "+v.S+" 18446744073709551615)")))
				}
			}
		}
	}
}

// refKnown records that a reference that came from outside is not above the current allocation top.
func (x *Exec) refKnown(ref string, guard string) {
	if x.cur != nil && x.cur.allocTop != "" {
		x.sc.assume(implies(guard, "(<= "+ref+" "+x.cur.allocTop+")"))
	}
}

type unsupportedErr struct{ msg string }

func (u unsupportedErr) Error() string { return "unsupported: " + u.msg }

func unsupported(format string, a ...interface{}) unsupportedErr {
	return unsupportedErr{fmt.Sprintf(format, a...)}
}
