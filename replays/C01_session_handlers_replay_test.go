package pfcpiface

import (
	"math/rand"
	"net"
	"testing"

	"github.com/omec-project/upf-epc/pfcpiface/metrics"
	"github.com/wmnsk/go-pfcp/ie"
	"github.com/wmnsk/go-pfcp/message"
)

type replayDatapath1 struct{ datapath }

func (d *replayDatapath1) SendMsgToUPF(method upfMsgType, all PacketForwardingRules, newRules PacketForwardingRules) uint8 {
	return 1
}

type replayGauge1 struct{}

func (replayGauge1) SaveMessages(*metrics.Message) {}
func (replayGauge1) SaveSessions(*metrics.Session) {}
func (replayGauge1) Stop() error                   { return nil }

func replayConn1(t *testing.T) *PFCPConn {
	pool, err := NewIPPool("10.250.0.0/29")
	if err != nil {
		t.Fatal(err)
	}
	srv, err := net.ListenUDP("udp", &net.UDPAddr{IP: net.IPv4(127, 0, 0, 1)})
	if err != nil {
		t.Skip(err)
	}
	a, err := net.DialUDP("udp", nil, srv.LocalAddr().(*net.UDPAddr))
	if err != nil {
		t.Skip(err)
	}
	t.Cleanup(func() { a.Close(); srv.Close() })
	u := &upf{ippool: pool, fteidGenerator: NewFTEIDGenerator(), accessIP: net.ParseIP("198.18.0.1"), nodeID: "198.18.0.1"}
	u.datapath = &replayDatapath1{}
	pConn := &PFCPConn{Conn: a, store: NewInMemoryStore(), upf: u, done: make(chan string, 1), shutdown: make(chan struct{}), InstrumentPFCP: replayGauge1{}, maxRetries: 100}
	pConn.nodeID.remote = "10.0.0.1"
	pConn.nodeID.localIE = ie.NewNodeID("198.18.0.1", "", "")
	pConn.rng = newReplayRand()
	return pConn
}

func replayNoPanic(t *testing.T, what string, f func()) {
	defer func() {
		if r := recover(); r != nil {
			t.Errorf("%s: handler panicked: %v", what, r)
		}
	}()
	f()
}

// Replays of the safety obligations that failed in handleSessionEstablishmentRequest: the mandatory
// Node ID and CP F-SEID IEs were dereferenced without a nil check, and a CP F-SEID that carries only
// an IPv6 address reached ip2int(nil). Each of these datagrams panicked the reader goroutine.
func TestReplayEstablishmentMandatoryIEs(t *testing.T) {
	pConn := replayConn1(t)
	replayNoPanic(t, "Session Establishment Request without Node ID", func() {
		m := message.NewSessionEstablishmentRequest(0, 0, 0, 1, 0, ie.NewFSEID(1, net.ParseIP("10.0.0.1"), nil))
		_, _ = pConn.handleSessionEstablishmentRequest(m)
	})
	replayNoPanic(t, "Session Establishment Request without CP F-SEID", func() {
		m := message.NewSessionEstablishmentRequest(0, 0, 0, 2, 0, ie.NewNodeID("10.0.0.1", "", ""))
		_, _ = pConn.handleSessionEstablishmentRequest(m)
	})
	replayNoPanic(t, "Session Establishment Request with an IPv6-only CP F-SEID", func() {
		m := message.NewSessionEstablishmentRequest(0, 0, 0, 3, 0, ie.NewNodeID("10.0.0.1", "", ""), ie.NewFSEID(1, nil, net.ParseIP("2001:db8::1")))
		_, _ = pConn.handleSessionEstablishmentRequest(m)
	})
}

func newReplayRand() *rand.Rand { return rand.New(rand.NewSource(1)) }

// Replay of (*pdr).parseUEAddressIE/pre/(*IPPool).LookupOrAllocIP#1.2: with UE IP allocation switched
// off the UPF has no pool (upf.ippool == nil); a Create PDR whose UE IP Address IE asks the UP
// function to choose the address (CHV4) then called LookupOrAllocIP on the nil pool and panicked.
func TestReplayUEAddressChooseWithoutPool(t *testing.T) {
	replayNoPanic(t, "UE IP Address IE with CHV4 and no pool", func() {
		var p pdr
		_ = p.parseUEAddressIE(ie.NewUEIPAddress(0x10, "", "", 0, 0), nil)
	})
}

// Replay of the C03/C05 finding in handleSessionModificationRequest: the handler works on a copy of
// the stored session whose rule slices still share their arrays with the stored record. A rejected
// modification (here: Remove PDR 1 succeeds, Remove FAR 99 names an unknown FAR) has already shifted
// the shared PDR array in place: the stored session - which the rejected request must not change -
// has lost PDR 1 and holds PDR 3 twice, while the datapath still has PDR 1 installed.
func TestReplayRejectedModificationCorruptsStoredRules(t *testing.T) {
	pConn := replayConn1(t)
	s := PFCPSession{localSEID: 42, remoteSEID: 7, metrics: metrics.NewSession("smf")}
	s.pdrs = []pdr{{pdrID: 1, fseID: 42, srcIface: access}, {pdrID: 2, fseID: 42, srcIface: access}, {pdrID: 3, fseID: 42, srcIface: access}}
	s.fars = []far{{farID: 1, fseID: 42}}
	if err := pConn.store.PutSession(s); err != nil {
		t.Fatal(err)
	}
	m := message.NewSessionModificationRequest(0, 0, 42, 5, 0,
		ie.NewRemovePDR(ie.NewPDRID(1)), ie.NewRemoveFAR(ie.NewFARID(99)))
	_, err := pConn.handleSessionModificationRequest(m)
	if err == nil {
		t.Fatal("the modification was expected to be rejected (unknown FAR)")
	}
	after, _ := pConn.store.GetSession(42)
	ids := []uint32{}
	for _, p := range after.pdrs {
		ids = append(ids, p.pdrID)
	}
	if len(ids) != 3 || ids[0] != 1 || ids[1] != 2 || ids[2] != 3 {
		t.Errorf("the rejected modification changed the stored session: PDR ids are now %v (were [1 2 3])", ids)
	}
}
