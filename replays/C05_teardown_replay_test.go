package pfcpiface

import (
	"net"
	"testing"

	"github.com/omec-project/upf-epc/pfcpiface/metrics"
	"github.com/wmnsk/go-pfcp/ie"
	"github.com/wmnsk/go-pfcp/message"
)

// A datapath that accepts everything (only SendMsgToUPF is ever called on these paths).
type replayDatapath struct {
	datapath
	dels int
}

func (d *replayDatapath) SendMsgToUPF(method upfMsgType, all PacketForwardingRules, newRules PacketForwardingRules) uint8 {
	if method == upfMsgTypeDel {
		d.dels++
	}

	return 1
}

type replayGauge struct{}

func (replayGauge) SaveMessages(*metrics.Message) {}
func (replayGauge) SaveSessions(*metrics.Session) {}
func (replayGauge) Stop() error                   { return nil }

func replayConnWithSession(t *testing.T) (*PFCPConn, uint64, uint32) {
	pool, err := NewIPPool("10.250.0.0/29")
	if err != nil {
		t.Fatal(err)
	}
	a, b := net.Pipe()
	t.Cleanup(func() { a.Close(); b.Close() })
	done := make(chan string, 1)
	u := &upf{ippool: pool, fteidGenerator: NewFTEIDGenerator()}
	u.datapath = &replayDatapath{}
	pConn := &PFCPConn{Conn: a, store: NewInMemoryStore(), upf: u, done: done, shutdown: make(chan struct{}), InstrumentPFCP: replayGauge{}}
	const seid = 42
	ip, err := pool.LookupOrAllocIP(seid)
	if err != nil {
		t.Fatal(err)
	}
	teid, err := u.fteidGenerator.Allocate()
	if err != nil {
		t.Fatal(err)
	}
	s := PFCPSession{localSEID: seid, remoteSEID: 7, metrics: metrics.NewSession("smf")}
	s.pdrs = []pdr{{srcIface: core, allocIPFlag: true, ueAddress: ip2int(ip), fseID: seid, pdrID: 1},
		{srcIface: access, UPAllocateFteid: true, tunnelTEID: teid, fseID: seid, pdrID: 2}}
	if err := pConn.store.PutSession(s); err != nil {
		t.Fatal(err)
	}
	return pConn, seid, teid
}

// Replay of the C05 finding: when an association goes away (release, heartbeat failure, peer
// time-out) Shutdown deletes the sessions from the datapath and the store, but the UE address the
// UPF allocated for a session stays in the pool's inventory and its UP-chosen F-TEID stays marked
// as used: every dropped association leaks them.
func TestReplayShutdownLeaksUEAddressAndTEID(t *testing.T) {
	pConn, seid, teid := replayConnWithSession(t)
	pConn.Shutdown()
	if _, ok := pConn.store.GetSession(seid); ok {
		t.Fatal("session still stored")
	}
	if _, still := pConn.upf.ippool.inventory[seid]; still {
		t.Errorf("after Shutdown the UE address allocated for session %d is still in use in the pool", seid)
	}
	if pConn.upf.fteidGenerator.IsAllocated(teid) {
		t.Errorf("after Shutdown the UP-chosen F-TEID %d of the session is still marked as allocated", teid)
	}
}

// Replay of (*PFCPConn).Shutdown/chan/close of closed channel#1: Shutdown runs in whichever
// goroutine notices the end of the association first (the reader on an Association Release Request,
// the heartbeat monitor on a time-out, Serve on a read time-out or when the node stops). When two of
// them notice it at about the same time Shutdown runs twice, and the second close(pConn.shutdown)
// panics - in a goroutine nobody recovers, so the whole agent dies. (Called twice in a row here; the
// second call is what the second goroutine executes.)
func TestReplayShutdownTwice(t *testing.T) {
	pConn, _, _ := replayConnWithSession(t)
	pConn.done = make(chan string, 2)
	pConn.Shutdown()
	defer func() {
		if r := recover(); r != nil {
			t.Errorf("second Shutdown of the same association panicked: %v", r)
		}
	}()
	pConn.Shutdown()
}

// Replay of (*PFCPConn).handleSessionReportResponse/nil/field Payload#1 (and idx/index#1): a Session
// Report Response without a Cause IE - or with an empty one - is dereferenced unchecked. The handler
// runs in the association's reader goroutine, nothing recovers: one such datagram kills the agent.
func TestReplayReportResponseWithoutCause(t *testing.T) {
	pConn, _, _ := replayConnWithSession(t)
	for name, m := range map[string]*message.SessionReportResponse{
		"no Cause IE":    message.NewSessionReportResponse(0, 0, 42, 1, 0),
		"empty Cause IE": message.NewSessionReportResponse(0, 0, 42, 1, 0, ie.New(ie.Cause, nil)),
	} {
		func() {
			defer func() {
				if r := recover(); r != nil {
					t.Errorf("Session Report Response with %s: handler panicked: %v", name, r)
				}
			}()
			_ = pConn.handleSessionReportResponse(m)
		}()
	}
}
