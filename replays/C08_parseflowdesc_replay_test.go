package pfcpiface

import (
	"testing"

	"github.com/wmnsk/go-pfcp/ie"
)

// Replays of failed obligations of parseFlowDesc / parseSDFFilter on the original tree:
//   parseFlowDesc/idx/index#20 (parse_sdf.go:144)     fields[i+1] looked at past the last token
//   parseFlowDesc/idx/index@parseFlowDesc$1 (xform)    "from"/"to" as the very last token
//   parseFlowDesc/post/C08.flow.nets                   no "from" or no "to": IPNet stays nil and
//                                                      parseSDFFilter dereferences it

func noPanic(t *testing.T, name string, f func()) {
	t.Helper()
	defer func() {
		if r := recover(); r != nil {
			t.Errorf("%s: panic: %v", name, r)
		}
	}()
	f()
}

func TestReplayFlowDescLookahead(t *testing.T) {
	noPanic(t, "from-net-last", func() { _, _ = parseFlowDesc("permit out ip from 10.0.0.1", "1.1.1.1") })
	noPanic(t, "from-last", func() { _, _ = parseFlowDesc("permit out ip from", "1.1.1.1") })
	noPanic(t, "to-last", func() { _, _ = parseFlowDesc("permit out ip from any to", "1.1.1.1") })
}

func TestReplayFlowDescMissingEndpoint(t *testing.T) {
	noPanic(t, "no-from", func() {
		p := pdr{srcIface: core}
		_ = p.parseSDFFilter(ie.NewSDFFilter("permit out ip to assigned", "", "", "", 1))
	})
	noPanic(t, "no-endpoints", func() {
		p := pdr{srcIface: access}
		_ = p.parseSDFFilter(ie.NewSDFFilter("permit out ip", "", "", "", 1))
	})
}
