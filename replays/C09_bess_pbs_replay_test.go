package pfcpiface

import (
	"context"
	"testing"
	"time"

	pb "github.com/omec-project/upf-epc/pfcpiface/bess_pb"
	"google.golang.org/grpc"
)

type rpClient struct {
	pb.BESSControlClient
	got []*pb.QosCommandAddArg
}

func (c *rpClient) ModuleCommand(ctx context.Context, in *pb.CommandRequest, opts ...grpc.CallOption) (*pb.CommandResponse, error) {
	var q pb.QosCommandAddArg
	if err := in.Arg.UnmarshalTo(&q); err == nil {
		c.got = append(c.got, &q)
	}
	return &pb.CommandResponse{}, nil
}

func TestReplayPbs(t *testing.T) {
	c := &rpClient{}
	b := &bess{client: c, qciQosMap: map[uint8]*QosConfigVal{0: {cbs: 10, pbs: 5000, ebs: 100, burstDurationMs: 10}}}
	done := make(chan bool, 1)
	b.addQER(context.Background(), done, qer{qerID: 1, ulMbr: 8, dlMbr: 8})
	select {
	case <-done:
	case <-time.After(time.Second):
		t.Fatal("timeout")
	}
	for _, q := range c.got {
		if q.Pbs < 5000 {
			t.Errorf("pbs=%d < configured minimum 5000 (ebs=%d)", q.Pbs, q.Ebs)
		}
	}
}
