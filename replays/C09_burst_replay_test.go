// Replay for C09 (calcBurstSizeFromRate/post/C09.burst.floor@thorough, later C09.burst.atleast):
// "burst sizes are at least rate x burst-duration". The floating-point computation
// uint64((kbps*1000/8) * (ms/1000)) falls one byte short of the exact product even when that is a
// whole number of bytes (kbps=24, ms=84579: 3000 B/s * 84.579 s = 253737 B, computed 253736), and
// truncates fractions of a byte (kbps=1, ms=1: 0.125 B -> 0).
// Run: /verif/tools/run_replay.sh /verif/replays/C09_burst_replay_test.go TestReplayBurst
package pfcpiface

import (
	"math/big"
	"testing"
)

func TestReplayBurstAtLeastRateTimesDuration(t *testing.T) {
	for _, c := range [][2]uint64{{24, 84579}, {1, 1}, {7, 3}, {1 << 39, 1<<31 + 1}} {
		kbps, ms := c[0], c[1]
		r := calcBurstSizeFromRate(kbps, ms)
		// r bytes >= kbps*125 B/s * ms/1000 s  <=>  r*8 >= kbps*ms, or r is the largest uint64
		lhs := new(big.Int).Mul(new(big.Int).SetUint64(r), big.NewInt(8))
		rhs := new(big.Int).Mul(new(big.Int).SetUint64(kbps), new(big.Int).SetUint64(ms))
		if lhs.Cmp(rhs) < 0 && r != ^uint64(0) {
			t.Errorf("kbps=%d ms=%d: burst %d bytes is below rate x duration = %s/8 bytes", kbps, ms, r, rhs)
		}
	}
}
