package pfcpiface

import "testing"

// Replays of the three failed obligations of (*PFCPSession).MarkSessionQer on the original tree:
//   idx/index#1                      s.pdrs[len(s.pdrs)-1] with no PDRs
//   inv-step/C09.mark.l1.common#1    copy(sessQerIDList, sList) keeps stale ids
//   inv-init/C09.mark.l2.pick#1      qers[0] is marked when no candidate qualifies

func TestReplayMarkNoPdrs(t *testing.T) {
	defer func() {
		if r := recover(); r != nil {
			t.Fatalf("panic: %v", r)
		}
	}()
	s := &PFCPSession{}
	s.MarkSessionQer([]qer{{qerID: 1}, {qerID: 2}})
}

func TestReplayMarkStaleID(t *testing.T) {
	s := &PFCPSession{}
	s.pdrs = []pdr{{pdrID: 1, qerIDList: []uint32{1}}, {pdrID: 2, qerIDList: []uint32{1, 2}}}
	qers := []qer{{qerID: 1, ulMbr: 10}, {qerID: 2, ulMbr: 20}}
	s.MarkSessionQer(qers)
	if qers[1].qosLevel == SessionQos {
		t.Fatalf("QER 2 marked session-wide although PDR 1 does not reference it")
	}
}

func TestReplayMarkNoCandidate(t *testing.T) {
	s := &PFCPSession{}
	s.pdrs = []pdr{{pdrID: 1, qerIDList: []uint32{2}}}
	// QER 2 is common to all PDRs but is a GBR QER, so nothing qualifies; QER 1 is referenced by no PDR
	qers := []qer{{qerID: 1, ulMbr: 10}, {qerID: 2, ulMbr: 20, ulGbr: 5}}
	s.MarkSessionQer(qers)
	if qers[0].qosLevel == SessionQos {
		t.Fatalf("QER 1 marked session-wide although no PDR references it")
	}
}
