package pfcpiface

import (
	"context"
	"net"
	"os"
	"sync"
	"testing"
	"time"

	"github.com/golang/protobuf/proto"
	p4ConfigV1 "github.com/p4lang/p4runtime/go/p4/config/v1"
	p4 "github.com/p4lang/p4runtime/go/p4/v1"
	"google.golang.org/grpc"
	"google.golang.org/grpc/connectivity"
	"google.golang.org/grpc/credentials/insecure"
	"google.golang.org/grpc/test/bufconn"
)

// An in-process P4Runtime server that accepts every write (so that IsConnected is true and the
// request path runs exactly as in production, without a switch).
type replayP4Server struct {
	p4.UnimplementedP4RuntimeServer
}

func (*replayP4Server) Write(context.Context, *p4.WriteRequest) (*p4.WriteResponse, error) {
	return &p4.WriteResponse{}, nil
}

func replayConnectedUP4(t *testing.T) *UP4 {
	b, err := os.ReadFile("../conf/p4/bin/p4info.txt")
	if err != nil {
		t.Skip(err)
	}
	var info p4ConfigV1.P4Info
	if err := proto.UnmarshalText(string(b), &info); err != nil {
		t.Fatal(err)
	}
	lis := bufconn.Listen(1 << 20)
	srv := grpc.NewServer()
	p4.RegisterP4RuntimeServer(srv, &replayP4Server{})
	go func() { _ = srv.Serve(lis) }()
	t.Cleanup(srv.Stop)
	conn, err := grpc.Dial("bufnet", grpc.WithContextDialer(func(ctx context.Context, _ string) (net.Conn, error) { return lis.DialContext(ctx) }),
		grpc.WithTransportCredentials(insecure.NewCredentials()))
	if err != nil {
		t.Fatal(err)
	}
	t.Cleanup(func() { conn.Close() })
	conn.Connect()
	ctx, cancel := context.WithTimeout(context.Background(), 5*time.Second)
	defer cancel()
	for conn.GetState() != connectivity.Ready {
		if !conn.WaitForStateChange(ctx, conn.GetState()) {
			t.Fatal("in-process P4Runtime channel did not become ready")
		}
	}
	up4 := &UP4{p4client: &P4rtClient{client: p4.NewP4RuntimeClient(conn), conn: conn, P4Info: &info}, p4RtTranslator: newP4RtTranslator(&info)}
	up4.accessIP = &net.IPNet{IP: net.IPv4(198, 18, 0, 1).To4(), Mask: net.CIDRMask(32, 32)}
	up4.meters = make(map[meterID]meter)
	up4.ueAddrToFSEID = make(map[uint32]uint64)
	up4.fseidToUEAddr = make(map[uint64]uint32)
	up4.counters = make([]counter, 2)
	up4.initTunnelPeerIDs()
	up4.initApplicationIDs()
	up4.initAllCounters()
	up4.initMetersPools()
	up4.connected = true
	return up4
}

// Replay of the C11 finding "UP4.meters / ueAddrToFSEID / fseidToUEAddr are plain maps written by the
// request goroutines of all associations without a lock": two associations establish sessions at
// the same time. Run with -race on the tree before the fix: DATA RACE (or the runtime's fatal
// "concurrent map writes"); with the fix every access happens under UP4.storeMu.
func TestReplayConcurrentAssociationsUP4(t *testing.T) {
	up4 := replayConnectedUP4(t)
	var wg sync.WaitGroup
	for a := 0; a < 2; a++ {
		wg.Add(1)
		go func(a int) {
			defer wg.Done()
			for i := 0; i < 200; i++ {
				fseid := uint64(a*1000 + i + 1)
				rules := PacketForwardingRules{
					pdrs: []pdr{{srcIface: core, ueAddress: 0x0a000000 + uint32(fseid), fseID: fseid, pdrID: 1, farID: 1, srcIfaceMask: 0xff, qerIDList: []uint32{1}}},
					fars: []far{{farID: 1, fseID: fseid, applyAction: ActionDrop}},
					qers: []qer{{qerID: 1, fseID: fseid, qosLevel: ApplicationQos, ulMbr: 1000, dlMbr: 1000}},
				}
				if cause := up4.SendMsgToUPF(upfMsgTypeAdd, rules, rules); cause != 1 {
					t.Errorf("association %d session %d: cause %d", a, i, cause)
					return
				}
				if cause := up4.SendMsgToUPF(upfMsgTypeDel, rules, PacketForwardingRules{}); cause != 1 {
					t.Errorf("association %d session %d delete: cause %d", a, i, cause)
					return
				}
			}
		}(a)
	}
	wg.Wait()
}
