package pfcpiface

import (
	"context"
	"errors"
	"net"
	"os"
	"testing"

	set "github.com/deckarep/golang-set"
	"github.com/golang/protobuf/proto"
	p4ConfigV1 "github.com/p4lang/p4runtime/go/p4/config/v1"
	p4 "github.com/p4lang/p4runtime/go/p4/v1"
	"google.golang.org/grpc"
	"google.golang.org/grpc/codes"
	"google.golang.org/grpc/status"
)

// A P4Runtime client whose Write fails from the k-th call on (k counted from 0); everything else is
// the embedded nil interface and must not be called.
type replayFailingP4 struct {
	p4.P4RuntimeClient
	failFrom int
	writes   int
}

func (f *replayFailingP4) Write(ctx context.Context, in *p4.WriteRequest, opts ...grpc.CallOption) (*p4.WriteResponse, error) {
	f.writes++
	if f.writes > f.failFrom {
		return nil, errors.New("injected write failure")
	}
	return &p4.WriteResponse{}, nil
}

func replayUP4(t *testing.T, failFrom int) (*UP4, *replayFailingP4) {
	b, err := os.ReadFile("../conf/p4/bin/p4info.txt")
	if err != nil {
		t.Skip(err)
	}
	var info p4ConfigV1.P4Info
	if err := proto.UnmarshalText(string(b), &info); err != nil {
		t.Fatal(err)
	}
	fake := &replayFailingP4{failFrom: failFrom}
	up4 := &UP4{p4client: &P4rtClient{client: fake, P4Info: &info}, p4RtTranslator: newP4RtTranslator(&info)}
	up4.meters = make(map[meterID]meter)
	up4.ueAddrToFSEID = make(map[uint32]uint64)
	up4.fseidToUEAddr = make(map[uint64]uint32)
	up4.counters = make([]counter, 2)
	up4.initTunnelPeerIDs()
	up4.initApplicationIDs()
	up4.initAllCounters()
	up4.initMetersPools()
	return up4, fake
}

// Replay of (*UP4).configureApplicationMeter/post/C15.appmeter.fail and .nomigrate: when the meter
// write fails, the application-meter cells that were just allocated are handed to the session-meter
// pool instead of going back to the application-meter pool.
func TestReplayAppMeterCellsMigrate(t *testing.T) {
	up4, _ := replayUP4(t, 0)
	app0, sess0 := up4.appMeterCellIDsPool.Cardinality(), up4.sessMeterCellIDsPool.Cardinality()
	_, err := up4.configureApplicationMeter(qer{qerID: 1, fseID: 1, ulMbr: 1000, dlMbr: 1000}, true)
	if err == nil {
		t.Fatal("the injected write failure was not reported")
	}
	app1, sess1 := up4.appMeterCellIDsPool.Cardinality(), up4.sessMeterCellIDsPool.Cardinality()
	if app1 != app0 || sess1 != sess0 {
		t.Errorf("after a failed application meter write: app pool %d -> %d, session pool %d -> %d (cells migrated)", app0, app1, sess0, sess1)
	}
}

// The same defect, followed to a double allocation: the migrated cell IDs are numerically equal to
// session-meter cells that a live session holds, so the next session meter gets them again.
func TestReplayAppMeterCellsDoubleOwner(t *testing.T) {
	up4, fake := replayUP4(t, 1) // the first write succeeds, later ones fail
	up4.appMeterCellIDsPool = newReplaySet(7, 8)
	up4.sessMeterCellIDsPool = newReplaySet(7, 8)
	live, err := up4.configureSessionMeter(qer{qerID: 1, fseID: 1, ulMbr: 1000, dlMbr: 1000})
	if err != nil {
		t.Fatal(err)
	}
	if _, err := up4.configureApplicationMeter(qer{qerID: 2, fseID: 1, ulMbr: 1000, dlMbr: 1000}, true); err == nil {
		t.Fatal("the injected write failure was not reported")
	}
	fake.failFrom = 1 << 30
	second, err := up4.configureSessionMeter(qer{qerID: 1, fseID: 2, ulMbr: 1000, dlMbr: 1000})
	if err == nil {
		t.Errorf("session meter cells %v of a live session were handed out again as %v", live, second)
	}
}

func newReplaySet(vs ...uint32) set.Set {
	s := set.NewSet()
	for _, v := range vs {
		s.Add(v)
	}
	return s
}

// A P4Runtime client whose Write fails with a bare gRPC status of code Unknown (what a client sees
// when the server-side handler returns a plain error): no per-entry details.
type replayUnknownP4 struct {
	p4.P4RuntimeClient
}

func (f *replayUnknownP4) Write(ctx context.Context, in *p4.WriteRequest, opts ...grpc.CallOption) (*p4.WriteResponse, error) {
	return nil, status.Error(codes.Unknown, "switch refused the batch")
}

// Replay of (*UP4).modifyUP4ForwardingConfiguration/inv-step/C15.modify.l1.reject#2: a table write
// that fails with code Unknown and no details is converted into an empty P4RuntimeError, the loop
// over its (zero) statuses finds nothing to complain about, and the failed write is reported as
// success - the PFCP request would be accepted.
func TestReplayUnknownWriteErrorAccepted(t *testing.T) {
	up4, _ := replayUP4(t, 0)
	up4.p4client.client = &replayUnknownP4{}
	up4.accessIP = &net.IPNet{IP: net.IPv4(198, 18, 0, 1).To4(), Mask: net.CIDRMask(32, 32)}
	p := pdr{srcIface: core, ueAddress: 0x0a000001, fseID: 1, pdrID: 1, farID: 1, srcIfaceMask: 0xff}
	f := far{farID: 1, fseID: 1, applyAction: ActionDrop}
	err := up4.modifyUP4ForwardingConfiguration([]pdr{p}, []far{f}, nil, p4.Update_INSERT)
	if err == nil {
		t.Errorf("a table write that failed with gRPC code Unknown (no details) was reported as success")
	}
}

// Replay of (*UP4).sendDelete/post/C15.delete.keep#1.1: a session deletion whose table delete fails
// is rejected (the session stays live), but its counter cells have already been put back into the
// pool - the next session gets a counter cell that the live session still uses.
func TestReplayRejectedDeleteFreesCounters(t *testing.T) {
	up4, fake := replayUP4(t, 1<<30)
	up4.accessIP = &net.IPNet{IP: net.IPv4(198, 18, 0, 1).To4(), Mask: net.CIDRMask(32, 32)}
	// drain the pool down to one known cell so that the outcome does not depend on Pop's choice
	pool := up4.counters[preQosCounterID].counterIDsPool
	for pool.Cardinality() > 0 {
		pool.Pop()
	}
	pool.Add(uint64(5))
	rules := PacketForwardingRules{
		pdrs: []pdr{{srcIface: core, ueAddress: 0x0a000001, fseID: 1, pdrID: 1, farID: 1, srcIfaceMask: 0xff}},
		fars: []far{{farID: 1, fseID: 1, applyAction: ActionDrop}},
	}
	if err := up4.sendCreate(rules, rules); err != nil {
		t.Fatal(err)
	}
	if rules.pdrs[0].ctrID != 5 || pool.Cardinality() != 0 {
		t.Fatalf("setup: counter %d, pool %v", rules.pdrs[0].ctrID, pool)
	}
	fake.failFrom = 0 // every further write fails
	if err := up4.sendDelete(rules); err == nil {
		t.Fatal("the injected write failure was not reported")
	}
	if pool.Contains(uint64(5)) {
		t.Errorf("the deletion was rejected, yet counter cell 5 of the still-live session is free again: %v", pool)
	}
}

type replayEmptyRead struct {
	grpc.ClientStream
}

func (replayEmptyRead) Recv() (*p4.ReadResponse, error) { return &p4.ReadResponse{}, nil }

func (f *replayFailingP4) Read(ctx context.Context, in *p4.ReadRequest, opts ...grpc.CallOption) (p4.P4Runtime_ReadClient, error) {
	return replayEmptyRead{}, nil
}

// Replay of the KNOWN FINDING (*UP4).clearDatapathState/post/C15.clear.inv#1.3: clearing the
// datapath state (first connection, or every reconnection with clear_state_on_restart) refills the
// meter cell pools, but the plug-in keeps its map of configured meters - and the PFCP sessions keep
// their counter cells. Cells of live sessions are free again and are handed to the next session;
// deleting the old session later frees them a second time.
func TestReplayClearKeepsMeterBookkeeping(t *testing.T) {
	up4, _ := replayUP4(t, 1<<30)
	up4.accessIP = &net.IPNet{IP: net.IPv4(198, 18, 0, 1).To4(), Mask: net.CIDRMask(32, 32)}
	up4.ueIPPool = &net.IPNet{IP: net.IPv4(10, 250, 0, 0).To4(), Mask: net.CIDRMask(16, 32)}
	live, err := up4.configureSessionMeter(qer{qerID: 1, fseID: 1, ulMbr: 1000, dlMbr: 1000})
	if err != nil {
		t.Fatal(err)
	}
	up4.meters[meterID{qerID: 1, fseid: 1}] = live
	if err := up4.clearDatapathState(); err != nil {
		t.Fatal(err)
	}
	if _, still := up4.meters[meterID{qerID: 1, fseid: 1}]; still && up4.sessMeterCellIDsPool.Contains(live.uplinkCellID) {
		t.Errorf("after clearDatapathState the meter of session 1 is still configured (%v) but its cell %d is free again", live, live.uplinkCellID)
	}
}
