package pfcpiface

import (
	"context"
	"errors"
	"os"
	"testing"

	set "github.com/deckarep/golang-set"
	"github.com/golang/protobuf/proto"
	p4ConfigV1 "github.com/p4lang/p4runtime/go/p4/config/v1"
	p4 "github.com/p4lang/p4runtime/go/p4/v1"
	"google.golang.org/grpc"
)

// A P4Runtime client whose Write fails from the k-th call on (k counted from 0); everything else is
// the embedded nil interface and must not be called.
type replayFailingP4 struct {
	p4.P4RuntimeClient
	failFrom int
	writes   int
}

func (f *replayFailingP4) Write(ctx context.Context, in *p4.WriteRequest, opts ...grpc.CallOption) (*p4.WriteResponse, error) {
	f.writes++
	if f.writes > f.failFrom {
		return nil, errors.New("injected write failure")
	}
	return &p4.WriteResponse{}, nil
}

func replayUP4(t *testing.T, failFrom int) (*UP4, *replayFailingP4) {
	b, err := os.ReadFile("../conf/p4/bin/p4info.txt")
	if err != nil {
		t.Skip(err)
	}
	var info p4ConfigV1.P4Info
	if err := proto.UnmarshalText(string(b), &info); err != nil {
		t.Fatal(err)
	}
	fake := &replayFailingP4{failFrom: failFrom}
	up4 := &UP4{p4client: &P4rtClient{client: fake, P4Info: &info}, p4RtTranslator: newP4RtTranslator(&info)}
	up4.meters = make(map[meterID]meter)
	up4.ueAddrToFSEID = make(map[uint32]uint64)
	up4.fseidToUEAddr = make(map[uint64]uint32)
	up4.counters = make([]counter, 2)
	up4.initTunnelPeerIDs()
	up4.initApplicationIDs()
	up4.initAllCounters()
	up4.initMetersPools()
	return up4, fake
}

// Replay of (*UP4).configureApplicationMeter/post/C15.appmeter.fail and .nomigrate: when the meter
// write fails, the application-meter cells that were just allocated are handed to the session-meter
// pool instead of going back to the application-meter pool.
func TestReplayAppMeterCellsMigrate(t *testing.T) {
	up4, _ := replayUP4(t, 0)
	app0, sess0 := up4.appMeterCellIDsPool.Cardinality(), up4.sessMeterCellIDsPool.Cardinality()
	_, err := up4.configureApplicationMeter(qer{qerID: 1, fseID: 1, ulMbr: 1000, dlMbr: 1000}, true)
	if err == nil {
		t.Fatal("the injected write failure was not reported")
	}
	app1, sess1 := up4.appMeterCellIDsPool.Cardinality(), up4.sessMeterCellIDsPool.Cardinality()
	if app1 != app0 || sess1 != sess0 {
		t.Errorf("after a failed application meter write: app pool %d -> %d, session pool %d -> %d (cells migrated)", app0, app1, sess0, sess1)
	}
}

// The same defect, followed to a double allocation: the migrated cell IDs are numerically equal to
// session-meter cells that a live session holds, so the next session meter gets them again.
func TestReplayAppMeterCellsDoubleOwner(t *testing.T) {
	up4, fake := replayUP4(t, 1) // the first write succeeds, later ones fail
	up4.appMeterCellIDsPool = newReplaySet(7, 8)
	up4.sessMeterCellIDsPool = newReplaySet(7, 8)
	live, err := up4.configureSessionMeter(qer{qerID: 1, fseID: 1, ulMbr: 1000, dlMbr: 1000})
	if err != nil {
		t.Fatal(err)
	}
	if _, err := up4.configureApplicationMeter(qer{qerID: 2, fseID: 1, ulMbr: 1000, dlMbr: 1000}, true); err == nil {
		t.Fatal("the injected write failure was not reported")
	}
	fake.failFrom = 1 << 30
	second, err := up4.configureSessionMeter(qer{qerID: 1, fseID: 2, ulMbr: 1000, dlMbr: 1000})
	if err == nil {
		t.Errorf("session meter cells %v of a live session were handed out again as %v", live, second)
	}
}

func newReplaySet(vs ...uint32) set.Set {
	s := set.NewSet()
	for _, v := range vs {
		s.Add(v)
	}
	return s
}
