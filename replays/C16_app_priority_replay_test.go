package pfcpiface

import (
	"os"
	"testing"

	p4ConfigV1 "github.com/p4lang/p4runtime/go/p4/config/v1"
	"github.com/golang/protobuf/proto"
)

// Replay of the open finding (*P4rtTranslator).BuildApplicationsTableEntry/post/C16.app.shape#2.1:
// precedence 65535 (accepted by verifyPDR) yields priority 0 on the applications table, which has
// LPM/RANGE/TERNARY fields and therefore needs a non-zero priority (P4Runtime rejects the write).
func TestReplayApplicationsPriorityZero(t *testing.T) {
	b, err := os.ReadFile("../conf/p4/bin/p4info.txt")
	if err != nil {
		t.Skip(err)
	}
	var info p4ConfigV1.P4Info
	if err := proto.UnmarshalText(string(b), &info); err != nil {
		t.Fatal(err)
	}
	tr := newP4RtTranslator(&info)
	p := pdr{srcIface: access, precedence: 65535}
	p.appFilter.dstIP, p.appFilter.dstIPMask = 0x0a000000, 0xff000000
	if err := verifyPDR(p); err != nil {
		t.Fatalf("verifyPDR refuses the input: %v", err)
	}
	e, err := tr.BuildApplicationsTableEntry(p, 0, 1)
	if err != nil {
		t.Fatal(err)
	}
	if e.Priority == 0 {
		t.Errorf("applications entry with LPM field has priority 0 (precedence %d)", p.precedence)
	}
}
