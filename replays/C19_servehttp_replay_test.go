package pfcpiface

import (
	"net/http"
	"net/http/httptest"
	"strings"
	"testing"
)

// Replay of the failed obligations (*ConfigHandler).ServeHTTP/post/C19.http.one#1 and C19.http.post#1:
// a malformed body is answered 400 but the handler carries on, programs the datapath and writes 201.

type rpSliceDP struct {
	datapath
	calls int
}

func (d *rpSliceDP) AddSliceInfo(*SliceInfo) error { d.calls++; return nil }

type rpCountingWriter struct {
	*httptest.ResponseRecorder
	headers []int
}

func (w *rpCountingWriter) WriteHeader(s int) {
	w.headers = append(w.headers, s)
	w.ResponseRecorder.WriteHeader(s)
}

func TestReplayServeHTTPMalformedBody(t *testing.T) {
	dp := &rpSliceDP{}
	h := &ConfigHandler{upf: &upf{datapath: dp}}
	w := &rpCountingWriter{ResponseRecorder: httptest.NewRecorder()}
	r := httptest.NewRequest(http.MethodPost, "/v1/config/network-slices", strings.NewReader("{not json"))
	h.ServeHTTP(w, r)
	if len(w.headers) != 1 {
		t.Errorf("WriteHeader called %d times %v, want exactly one 4xx", len(w.headers), w.headers)
	}
	if dp.calls != 0 {
		t.Errorf("datapath programmed %d time(s) for a malformed body", dp.calls)
	}
}
