#!/usr/bin/env python3
"""Must-fail corpus: applies each mutant to a scratch copy of /repo (outside /repo and /verif),
runs the property's check against the copy and asserts that a VIOLATION naming the expected
obligation is reported. Usage: run.py [name-substring ...]   (no args: all)"""
import json,os,shutil,subprocess,sys,tempfile,time
V='/verif'
muts=json.load(open(V+'/selftest/mutants.json'))
sel=sys.argv[1:]
ok=bad=0
t0=time.time()
import concurrent.futures,threading
lock=threading.Lock()
def one(m):
    global ok,bad
    d=tempfile.mkdtemp(prefix='govc_selftest_',dir='/tmp')
    try:
        repo=d+'/repo'
        shutil.copytree('/repo',repo,ignore=shutil.ignore_patterns('.git'))
        vd=d+'/verif'; os.makedirs(vd)
        for f in ('props.json','KNOWN_FINDINGS.json','hints.json'):
            if os.path.exists(V+'/'+f): shutil.copy(V+'/'+f,vd)
        if 'patch' in m:
            p=m['patch'] if m['patch'].startswith('/') else V+'/'+m['patch']
            r=subprocess.run(['git','apply','--3way',p],cwd=repo,capture_output=True,text=True)
            if r.returncode!=0:
                r=subprocess.run(['patch','-p1','-s','-i',p],cwd=repo,capture_output=True,text=True)
            if r.returncode!=0:
                print('SKIP-PATCH',m['name'],(r.stderr or r.stdout)[:200]); bad+=1; return
        for e in m.get('edits',[]):
            fp=repo+'/'+e['file']; s=open(fp).read()
            if s.count(e['old'])<1:
                print('SKIP-EDIT',m['name'],'pattern not found:',e['old'][:60]); bad+=1; break
            s=s.replace(e['old'],e['new'],1); open(fp,'w').write(s)
        else:
            b=subprocess.run(['go','build','./pfcpiface/'],cwd=repo,capture_output=True,text=True,env=dict(os.environ,GOFLAGS='-mod=mod',GOPROXY='off'))
            if b.returncode!=0:
                print('MUTANT-DOES-NOT-COMPILE',m['name'],b.stderr[:300]); bad+=1; return
            if 'verify_fn' in m:
                # cheap form for mutants of one function: its own obligations only (govc verify), not the whole property
                r=subprocess.run([V+'/bin/govc','verify','-repo',repo,'-fn',m['verify_fn']],capture_output=True,text=True)
                viol=['VIOLATION '+l.strip() for l in r.stdout.split('\n') if l.strip().startswith('FAIL')]
            else:
                r=subprocess.run([V+'/bin/govc','check','-repo',repo,'-verif',vd,'-prop',m['property'],'-tier','quick'],capture_output=True,text=True)
                viol=[l for l in r.stdout.split('\n') if l.startswith('VIOLATION')]
            hit=[l for l in viol if m['expect'] in l]
            if r.returncode==1 and hit:
                ok+=1; print('caught  %-28s %s  (%d violation lines)'%(m['name'],m['expect'],len(viol)))
            else:
                bad+=1; print('MISSED  %-28s expected %s; exit=%d; violations: %s'%(m['name'],m['expect'],r.returncode,[v[:120] for v in viol[:4]]))
    finally:
        shutil.rmtree(d,ignore_errors=True)
with concurrent.futures.ThreadPoolExecutor(max_workers=int(os.environ.get('SELFTEST_WORKERS','2'))) as ex:
    list(ex.map(one,[m for m in muts if not sel or any(s in m['name'] for s in sel)]))
print('selftest: %d caught, %d problems, %.0fs'%(ok,bad,time.time()-t0))
sys.exit(1 if bad else 0)
