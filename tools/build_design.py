#!/usr/bin/env python3
"""Splices Part II (tools/design_part2.md) into DESIGN.md, filling the tables from the evidence
files, KNOWN_FINDINGS.json and seeded/*/detected.json."""
import json, os, glob, re, subprocess
root = '/verif'
props = json.load(open(root + '/props.json'))
titles = {json.loads(l)['id']: json.loads(l)['title'] for l in open(root + '/properties.jsonl')}
rows = ['| id | title | functions | obligations | discharged by (z3-new / z3 / cvc5 / syntactic) | known | wall (quick) |',
        '|----|-------|-----------|-------------|----------------------------------|-------|------|']
for pid in sorted(props):
    f = root + '/evidence/%s.json' % pid
    if not os.path.exists(f):
        rows.append('| %s | %s | - | - | - | - | (no evidence yet) |' % (pid, titles.get(pid, '')))
        continue
    e = json.load(open(f))
    c = e.get('coverage', {})
    by = c.get('discharged_by_solver', {})
    rows.append('| %s | %s | %d | %s | %s / %s / %s / %s | %s | %.0f s |' % (
        pid, titles.get(pid, ''), len(c.get('functions_under_contract', [])), c.get('obligations', c.get('discharged', '?')),
        by.get('z3-new', 0), by.get('z3', 0), by.get('cvc5', 0), by.get('syntactic', 0), len(c.get('known_findings', []) or []), e.get('wall_s', 0)))
table = '\n'.join(rows)
kf = json.load(open(root + '/KNOWN_FINDINGS.json'))
fx = []
seen = set()
for k in kf:
    if k.get('status') != 'fixed' or k['commit'] in seen:
        continue
    seen.add(k['commit'])
    subj = subprocess.run(['git', '-C', '/repo', 'log', '-n1', '--format=%s', k['commit']], capture_output=True, text=True).stdout.strip()
    what = re.sub(r'^fixed: property=\S+ \S+ ', '', k['what'])
    fx.append('* **%s** `%s` - %s\n  obligation `%s`. %s' % (k['property'], k['commit'], subj, k['obligation'], what))
fixes = '\n'.join(fx)
srows = ['| seed | property | what it changes | check result | first obligations reported |', '|------|----------|-----------------|--------------|----------------------------|']
for d in sorted(glob.glob(root + '/seeded/*/')):
    s = os.path.basename(d.rstrip('/'))
    meta = json.load(open(d + 'meta.json'))
    det = json.load(open(d + 'detected.json')) if os.path.exists(d + 'detected.json') else None
    if det is None:
        res, obl = 'not run', ''
    elif det['check_exit'] == 1:
        res, obl = 'caught (exit 1, %d violations)' % det['violations'], '; '.join('`%s`' % o for o in det['obligations'][:2])
    elif det['check_exit'] == 0:
        res, obl = 'NOT caught', ''
    else:
        res, obl = 'property not claimed', ''
    srows.append('| %s | %s | %s | %s | %s |' % (s, meta['property'], meta['summary'].replace('|', '/')[:160], res, obl))
seeds = '\n'.join(srows)
part2 = open(root + '/tools/design_part2.md').read().replace('@@TABLE@@', table).replace('@@FIXES@@', fixes).replace('@@SEEDS@@', seeds)
d = open(root + '/DESIGN.md').read()
marker = '\n---\n\n# Part II'
if marker in d:
    d = d[:d.index(marker)]
d = d.rstrip('\n') + '\n' + part2
d = d.replace('Status: design only (round 0). No framework code exists yet. Everything below\nthat is stated as a *measurement* was measured in this sandbox with throw-away\nscripts; everything stated as a *plan* is a plan.',
              'Status: Part I is the round-0 design, kept as written before any code existed (what it calls a\n*measurement* was measured with throw-away scripts, what it calls a *plan* was a plan). Part II, at the\nend of this file, records what was actually built, what it decided and found, and where it deviates.')
open(root + '/DESIGN.md', 'w').write(d)
print('DESIGN.md rebuilt:', len(d.split('\n')), 'lines')
