#!/bin/bash
# usage: confirm_seed2.sh <prop id> <seed name> <patch file> <demo test file> <demo test name>
# Round-2 seeds are made against /repo's HEAD (with the fix: commits). Confirms in a fresh scratch
# worktree of HEAD: demo passes without the change; build and existing suite pass with it; demo fails with it.
set -u
export GOFLAGS=-mod=mod GOPROXY=off
ID=$1; NAME=$2; PATCH=$3; DEMO=$4; TNAME=$5
WT=/tmp/confirm_$NAME
git -C /repo worktree remove --force $WT 2>/dev/null; rm -rf $WT; git -C /repo worktree prune; git -C /repo worktree add -q --detach $WT HEAD || exit 2
cp $DEMO $WT/pfcpiface/zz_seeded_demo_test.go
cd $WT
go test -vet=off -count=1 -run "^$TNAME\$" ./pfcpiface/ > /tmp/confirm_$NAME.without.log 2>&1; W=$?
git apply $PATCH || { echo "patch does not apply"; cd /; git -C /repo worktree remove --force $WT; exit 2; }
go build ./... > /tmp/confirm_$NAME.build.log 2>&1; B=$?
go test -vet=off -count=1 -skip "^$TNAME\$" ./cmd/... ./pfcpiface/... ./pkg/... ./internal/... ./logger/... > /tmp/confirm_$NAME.suite.log 2>&1; S=$?
go test -vet=off -count=1 -run "^$TNAME\$" ./pfcpiface/ > /tmp/confirm_$NAME.with.log 2>&1; D=$?
echo "demo without change: exit $W (want 0); build with change: $B (want 0); suite with change: $S (want 0); demo with change: $D (want !=0)"
cd /; git -C /repo worktree remove --force $WT
if [ $W -eq 0 ] && [ $B -eq 0 ] && [ $S -eq 0 ] && [ $D -ne 0 ]; then
  mkdir -p /verif/seeded/$NAME
  cp $PATCH /verif/seeded/$NAME/patch.diff
  cp $DEMO /verif/seeded/$NAME/demo_test.go
  tail -5 /tmp/confirm_$NAME.with.log > /verif/seeded/$NAME/demo_with_change.log
  echo CONFIRMED
else
  echo NOT-CONFIRMED; tail -n 20 /tmp/confirm_$NAME.suite.log /tmp/confirm_$NAME.with.log /tmp/confirm_$NAME.without.log
fi
