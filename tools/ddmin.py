#!/usr/bin/env python3
# delta-debug an unsat SMT query: prints a small set of assertions that is still unsat
import subprocess,sys
f=sys.argv[1]
lines=open(f).read().split('\n')
idx=[i for i,l in enumerate(lines) if l.startswith('(assert')]
def unsat(keep):
    txt='\n'.join(l for i,l in enumerate(lines) if (i not in idxs) or (i in keep))
    txt=txt.replace('(get-model)','')
    open('/tmp/dd.smt2','w').write(txt)
    out=subprocess.run(['z3-new','-T:5','/tmp/dd.smt2'],capture_output=True,text=True).stdout
    return out.strip().startswith('unsat')
idxs=set(idx)
keep=set(idx)
if not unsat(keep):
    print("not unsat"); sys.exit(1)
# chunked removal
n=max(1,len(idx)//8)
while n>=1:
    i=0
    order=sorted(keep)
    while i<len(order):
        chunk=set(order[i:i+n])
        if unsat(keep-chunk): keep-=chunk
        i+=n
    n//=2
for i in sorted(keep): print(i, lines[i][:int(sys.argv[2]) if len(sys.argv)>2 else 300])
