#!/usr/bin/env python3
# Regenerates /verif/MANIFEST.json from props.json + tools/manifest_meta.json and validates it.
import json, subprocess, sys
props=[json.loads(l) for l in open('/verif/properties.jsonl')]
spec=json.load(open('/verif/props.json'))
meta=json.load(open('/verif/tools/manifest_meta.json'))
hooks=subprocess.run(['git','-C','/repo','log','--format=%h %s'],capture_output=True,text=True).stdout.strip().split('\n')
hook_commits=[l.split()[0] for l in hooks if l.split(' ',1)[1].startswith('verif:')]
m={
 "version":1,
 "setup_cmd":"cd /verif/govc && GOFLAGS=-mod=mod GOPROXY=off go build -o /verif/bin/govc ./cmd/govc",
 "hooks":{"guard":"verif","enable":"govc loads /repo with -tags=verif; the tag only adds pfcpiface/zz_contracts_verif.go (contracts as //@ comments, Go spec functions, ghost built-ins); no production file is instrumented",
   "baseline_off_cmd":"cd /repo && GOFLAGS=-mod=mod GOPROXY=off go test -json -vet=off -count=1 -timeout 25m ./cmd/... ./pfcpiface/... ./pkg/... ./internal/... ./logger/...",
   "source_commits":hook_commits, "add_only":True},
 "engines":[{"name":"govc","path":"/verif/govc","serves_properties":sorted(spec.keys()),"kind_free_text":"VC generator over go/ssa of the real code; contracts as //@ comments in a tag-guarded file; obligations discharged by z3 4.8.12 / z3 5.1 / cvc5 1.0.3"}],
 "checks":[], "not_applicable":[], "notes":"see DESIGN.md; ./check <id> quick|thorough; known findings in KNOWN_FINDINGS.json; seeded changes in seeded/"
}
for p in props:
    i=p['id']
    if i in spec:
        mm=meta.get(i,{})
        m['checks'].append({"property_id":i,"quick_cmd":"./check %s quick"%i,"thorough_cmd":"./check %s thorough"%i,
          "evidence_file":"/verif/evidence/%s.json"%i,"engine":"govc","replay_cmd_template":"./replay {path}",
          "level_claimed":{"category":"proof","text":mm.get('text',"every obligation generated from the contracts on the real functions is discharged by an SMT solver for all inputs (no bound)"),"design_ref":"DESIGN.md section 3 "+i},
          "level_note":mm.get('note',"trusted: govc, go/ssa, the SMT solvers; assumed contracts/models of dependencies are listed in the evidence file"),
          "technique":"contract-based deductive verification: VC generation over go/ssa of the real code + SMT"})
    else:
        m['not_applicable'].append({"property_id":i,"reason":meta.get('na',{}).get(i,"not yet under contract in this revision (work in progress; see DESIGN.md)")})
json.dump(m,open('/verif/MANIFEST.json','w'),indent=1)
try:
    import jsonschema
    jsonschema.validate(m, json.load(open('/root/.vp/MANIFEST.schema.json')))
    print("manifest valid:",len(m['checks']),"checks")
except ImportError:
    print("jsonschema not available; not validated")
