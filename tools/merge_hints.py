#!/usr/bin/env python3
"""Merge the solving strategies recorded by the last check runs (/verif/out/hints/<id>.json) into
/verif/hints.json. Hints only choose which stage and solver is tried first for an obligation; every
obligation is still decided by a solver on every run."""
import glob, json, os
root = os.path.dirname(os.path.dirname(os.path.abspath(__file__)))
path = os.path.join(root, "hints.json")
hints = json.load(open(path)) if os.path.exists(path) else {}
for f in sorted(glob.glob(os.path.join(root, "out", "hints", "*.json"))):
    hints.update(json.load(open(f)))
json.dump(hints, open(path, "w"), indent=0, sort_keys=True)
print(len(hints), "hints")
