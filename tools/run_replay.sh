#!/bin/sh
# Runs a hand-written replay test of /verif/replays against the real code without writing into
# /repo: usage tools/run_replay.sh <replays/file_replay_test.go> [TestName-regexp] [extra go test flags]
# On the repaired tree the tests of fixed findings pass; TestReplayClearKeepsMeterBookkeeping (the
# open finding) still demonstrates the defect. To see a fixed defect again, apply the reverting
# diff selftest/revert_<commit>.diff to a scratch copy and pass REPO=<copy>.
export GOFLAGS=-mod=mod GOPROXY=off
REPO=${REPO:-/repo}
f=$(readlink -f "$1"); run=${2:-.}
[ $# -gt 0 ] && shift
[ $# -gt 0 ] && shift
ov=$(mktemp /tmp/govc_replay_XXXXXX.json)
printf '{"Replace":{"%s/pfcpiface/zz_%s":"%s"}}' "$REPO" "$(basename "$f")" "$f" > "$ov"
(cd "$REPO" && go test -overlay "$ov" -vet=off -count=1 -timeout 120s -run "$run" "$@" ./pfcpiface); rc=$?
rm -f "$ov"; exit $rc
