#!/usr/bin/env python3
"""Applies every seeded change (seeded/<id>/patch.diff, or its rebased form) to a scratch copy of
/repo outside /repo and /verif, runs the quick check of its property against the copy, and records
what the check reported in seeded/<id>/detected.json. /repo and /verif/evidence are not touched.
Usage: tools/run_seeds.py [id ...]   (SEED_WORKERS, default 2)"""
import json,os,re,shutil,subprocess,sys,tempfile,glob,concurrent.futures
V='/verif'
props=json.load(open(V+'/props.json'))
claimed={p['id'] for p in props} if isinstance(props,list) else set(props.keys())
def one(s):
    d=V+'/seeded/'+s
    meta=json.load(open(d+'/meta.json')); prop=meta['property']
    t=tempfile.mkdtemp(prefix='govc_seed_',dir='/tmp')
    try:
        repo=t+'/repo'; shutil.copytree('/repo',repo,ignore=shutil.ignore_patterns('.git'))
        vd=t+'/verif'; os.makedirs(vd)
        for f in ('props.json','KNOWN_FINDINGS.json','hints.json'):
            shutil.copy(V+'/'+f,vd)
        applied=None
        for p in [d+'/patch.diff']+sorted(glob.glob(d+'/patch_rebased*.diff')):
            if subprocess.run(['git','apply','--check',p],cwd=repo,capture_output=True).returncode==0:
                subprocess.run(['git','apply',p],cwd=repo,check=True); applied=p; break
        if not applied:
            print(s,'patch does not apply'); return
        b=subprocess.run(['go','build','./pfcpiface/','./cmd/...'],cwd=repo,capture_output=True,text=True,env=dict(os.environ,GOFLAGS='-mod=mod',GOPROXY='off'))
        if b.returncode!=0:
            print(s,'does not compile',b.stderr[:200]); return
        if prop not in claimed:
            json.dump({"seed":s,"property":prop,"check_exit":-1,"violations":0,"obligations":[],"note":"property not claimed (not applicable)"},open(d+'/detected.json','w'),indent=1); print(s,prop,'not claimed'); return
        r=subprocess.run([V+'/bin/govc','check','-repo',repo,'-verif',vd,'-prop',prop,'-tier','quick'],capture_output=True,text=True)
        open(V+'/out/seed_%s.log'%s,'w').write(r.stdout+r.stderr)
        v=[l for l in r.stdout.split('\n') if l.startswith('VIOLATION')]
        obl=[re.sub(r'.*obligation=','',l).replace(' no-failing-input-found','') for l in v]
        json.dump({"seed":s,"property":prop,"patch":os.path.basename(applied),"check_exit":r.returncode,"violations":len(v),"obligations":obl[:12]},open(d+'/detected.json','w'),indent=1)
        meta['detected_by']=('./check %s quick: exit %d, %d violation line(s), first: %s'%(prop,r.returncode,len(v),obl[0]) if v else './check %s quick: exit %d, no violation reported'%(prop,r.returncode))
        meta['apply']='python3 /verif/tools/run_seeds.py %s   (scratch copy; or: git -C /repo apply <patch> ; ./check %s quick ; git -C /repo apply -R <patch>)'%(s,prop)
        json.dump(meta,open(d+'/meta.json','w'),indent=1)
        print(s,prop,'exit',r.returncode,'violations',len(v),obl[:2],flush=True)
    finally:
        shutil.rmtree(t,ignore_errors=True)
ids=sys.argv[1:] or sorted(os.listdir(V+'/seeded'))
with concurrent.futures.ThreadPoolExecutor(max_workers=int(os.environ.get('SEED_WORKERS','2'))) as ex:
    list(ex.map(one,ids))
