#!/bin/sh
# Applies every seeded change to /repo's working tree (which must be clean), runs the check of its
# property (quick tier), records what the check reported in seeded/<id>/detected.json, and undoes the
# change with `git apply -R`. Usage: tools/run_seeds.sh [id ...]
cd /verif || exit 2
if [ -n "$(git -C /repo status --porcelain)" ]; then echo "/repo has uncommitted changes" >&2; exit 2; fi
ids="$*"
[ -n "$ids" ] || ids=$(ls seeded)
for s in $ids; do
  d=seeded/$s
  prop=$(python3 -c "import json;print(json.load(open('$d/meta.json'))['property'])")
  patch=$d/patch.diff
  git -C /repo apply --check $patch 2>/dev/null || patch=$(ls $d/patch_rebased*.diff 2>/dev/null | head -1)
  if ! git -C /repo apply $patch; then echo "$s: patch does not apply"; continue; fi
  if grep -q "\"$prop\"" props.json; then
    ./check $prop quick > out/seed_$s.log 2>&1; rc=$?
  else
    echo "property $prop is not claimed" > out/seed_$s.log; rc=-1
  fi
  git -C /repo apply -R $patch
  python3 - "$s" "$prop" "$rc" <<'PY'
import json,sys,re
s,prop,rc=sys.argv[1:4]
log=open('/verif/out/seed_%s.log'%s).read()
v=[l for l in log.split('\n') if l.startswith('VIOLATION')]
obl=[re.sub(r'.*obligation=','',l).replace(' no-failing-input-found','') for l in v]
json.dump({"seed":s,"property":prop,"check_exit":int(rc),"violations":len(v),"obligations":obl[:12]},open('/verif/seeded/%s/detected.json'%s,'w'),indent=1)
print(s,prop,"exit",rc,"violations",len(v),obl[:2])
PY
done
